"""Shared driver machinery: build cache, worker pool, evidence, known findings.

Standard library only.  Everything is rebuilt from /repo's current working tree: the
cache key is a content hash of the header (and of the harness sources), so an edited
tree can never be served a stale binary.
"""
import concurrent.futures
import fcntl
import hashlib
import json
import os
import re
import shutil
import subprocess
import sys
import time

VERIF = os.path.dirname(os.path.dirname(os.path.abspath(__file__)))
REPO = os.environ.get("VERIF_REPO", "/repo")
HEADER = os.path.join(REPO, "source/include/gch/small_vector.hpp")
INCLUDE = os.path.join(REPO, "source/include")
HARNESS = os.path.join(VERIF, "harness")
BUILD_ROOT = os.path.join(VERIF, "build")
EVIDENCE = os.path.join(VERIF, "evidence")
REPLAYS_TMP = os.path.join(VERIF, "replays", "tmp")
KNOWN_FINDINGS = os.path.join(VERIF, "known_findings.jsonl")
JOBS = int(os.environ.get("VERIF_JOBS", "16"))

SAN_FLAGS = ["-O1", "-g", "-fsanitize=address,undefined", "-fno-sanitize-recover=undefined",
             "-fno-omit-frame-pointer"]
RUN_ENV = dict(os.environ,
               ASAN_OPTIONS="detect_leaks=0:abort_on_error=0:exitcode=77:allocator_may_return_null=1:detect_stack_use_after_return=0:quarantine_size_mb=64:malloc_context_size=5",
               UBSAN_OPTIONS="print_stacktrace=1:halt_on_error=1:exitcode=77")


def log(*a):
    print(*a, file=sys.stderr, flush=True)


def seed_from_env():
    try:
        s = int(os.environ.get("VERIF_SEED", "1"))
    except ValueError:
        s = 1
    return s if s != 0 else 1


def sha_files(paths, extra=""):
    h = hashlib.sha256()
    for p in sorted(paths):
        h.update(p.encode())
        try:
            with open(p, "rb") as f:
                h.update(f.read())
        except OSError:
            h.update(b"<missing>")
    h.update(extra.encode())
    return h.hexdigest()[:16]


def harness_sources():
    out = []
    for n in sorted(os.listdir(HARNESS)):
        if n.endswith((".hpp", ".inc", ".cpp", ".def", ".py", ".h")):
            out.append(os.path.join(HARNESS, n))
    return out


def tree_hash(extra_files=(), extra=""):
    return sha_files([HEADER] + harness_sources() + list(extra_files), extra)


class BuildDir:
    """A per-tree build directory guarded by a file lock."""

    def __init__(self, name, key):
        os.makedirs(BUILD_ROOT, exist_ok=True)
        self.path = os.path.join(BUILD_ROOT, "%s-%s" % (name, key))
        os.makedirs(self.path, exist_ok=True)
        self._lock = None

    def __enter__(self):
        self._lock = open(os.path.join(self.path, ".lock"), "w")
        fcntl.flock(self._lock, fcntl.LOCK_EX)
        return self

    def __exit__(self, *a):
        fcntl.flock(self._lock, fcntl.LOCK_UN)
        self._lock.close()

    def file(self, *parts):
        return os.path.join(self.path, *parts)

    def done(self, tag):
        return os.path.exists(self.file(".done-" + tag))

    def mark(self, tag):
        with open(self.file(".done-" + tag), "w") as f:
            f.write(time.strftime("%Y-%m-%dT%H:%M:%S"))


def prune_builds(name, keep=2):
    """Keep the `keep` most recently used build directories of an engine."""
    try:
        ds = [os.path.join(BUILD_ROOT, d) for d in os.listdir(BUILD_ROOT) if d.startswith(name + "-")]
    except OSError:
        return
    ds.sort(key=lambda d: os.path.getmtime(d), reverse=True)
    for d in ds[keep:]:
        shutil.rmtree(d, ignore_errors=True)


def run(cmd, timeout=None, env=None, cwd=None, stdin=None):
    """Runs one subprocess.  A process that was killed with SIGKILL from outside (the kernel's
    out-of-memory killer on a loaded machine) says nothing about the tree: it is repeated once,
    so only a death that repeats reaches the caller."""
    for attempt in (0, 1):
        try:
            p = subprocess.run(cmd, stdout=subprocess.PIPE, stderr=subprocess.PIPE, timeout=timeout,
                               env=env or RUN_ENV, cwd=cwd, input=stdin)
        except subprocess.TimeoutExpired as e:
            return -999, (e.stdout or b"").decode(errors="replace"), (e.stderr or b"").decode(errors="replace")
        if p.returncode == -9 and attempt == 0:
            continue
        return p.returncode, p.stdout.decode(errors="replace"), p.stderr.decode(errors="replace")


def parallel(jobs, fn, workers=None):
    """Run fn(job) for every job on a thread pool (each job spawns a subprocess)."""
    res = [None] * len(jobs)
    with concurrent.futures.ThreadPoolExecutor(max_workers=workers or JOBS) as ex:
        futs = {ex.submit(fn, j): i for i, j in enumerate(jobs)}
        for f in concurrent.futures.as_completed(futs):
            res[futs[f]] = f.result()
    return res


def compile_many(units, workers=None):
    """units: list of (cmd, label).  Returns list of (label, rc, stderr) for failures."""
    def one(u):
        rc, out, err = run(u[0], timeout=5400)
        return (u[1], rc, err)
    bad = [r for r in parallel(units, one, workers) if r[1] != 0]
    return bad


# ---------------------------------------------------------------------------- evidence
def write_evidence(prop, tier, seed, level, coverage, wall, violations, assumptions=None, extra=None):
    os.makedirs(EVIDENCE, exist_ok=True)
    doc = {
        "property_id": prop,
        "tier": tier,
        "seed": int(seed),
        "level": level,
        "coverage": coverage,
        "assumptions": assumptions or [],
        "wall_s": round(float(wall), 3),
        "violations": int(violations),
    }
    if extra:
        doc.update(extra)
    tmp = os.path.join(EVIDENCE, ".%s.json.tmp" % prop)
    with open(tmp, "w") as f:
        json.dump(doc, f, indent=1, sort_keys=False)
        f.write("\n")
    os.replace(tmp, os.path.join(EVIDENCE, "%s.json" % prop))


# ---------------------------------------------------------------------------- known findings
def load_known():
    out = []
    try:
        with open(KNOWN_FINDINGS) as f:
            for line in f:
                line = line.strip()
                if not line or line.startswith("#"):
                    continue
                out.append(json.loads(line))
    except OSError:
        pass
    return out


def findings_for(prop):
    return [k for k in load_known() if k.get("kind") == "finding" and k.get("property") == prop]


def fixed_for(prop):
    return [k for k in load_known() if k.get("kind") == "fixed" and k.get("property") == prop]


def signature_matches(sig, facts):
    """Every key of the signature must match (regex full match against any listed pattern)."""
    for key, pats in sig.items():
        val = str(facts.get(key, ""))
        if isinstance(pats, str):
            pats = [pats]
        if not any(re.fullmatch(p, val) for p in pats):
            return False
    return True


def match_known(prop, facts):
    for k in findings_for(prop):
        if signature_matches(k.get("signature", {}), facts):
            return k
    return None


class Verdict:
    """Collects violations / known findings of one check run and prints the protocol lines."""

    def __init__(self, prop):
        self.prop = prop
        self.violations = []     # (replay path, text)
        self.known = []          # (finding id, text)
        self.notes = []

    def violation(self, replay, text):
        self.violations.append((replay, text))

    def known_finding(self, fid, text):
        if fid not in [k[0] for k in self.known]:
            self.known.append((fid, text))

    def finish(self):
        for fid, text in self.known:
            print("KNOWN-FINDING: property=%s %s" % (self.prop, text), flush=True)
        for replay, text in self.violations:
            print("VIOLATION property=%s replay=%s" % (self.prop, replay), flush=True)
            print("  " + text, flush=True)
        return 1 if self.violations else 0
