"""Configuration grids for the program interpreter (DESIGN.md Appendix B)."""


def TA(flav, c, m, s, ae=0, size_t="std::size_t", maxsz=0, construct=0):
    b = lambda x: "true" if x else "false"
    extra = ("" if not ae else ",ae=1") + ("" if size_t == "std::size_t" else "," + size_t.replace("std::", "")) + (",construct" if construct else "") + (",max=%d" % maxsz if maxsz else "")
    return ("vh::TrackAlloc<vh::%s, vh::ACfg<%s, %s, %s, %s, %s, %d, %s> >" % (flav, b(c), b(m), b(s), b(ae), size_t, maxsz, b(construct)),
            "TA(%d,%d,%d%s)" % (c, m, s, extra))


def STD(flav):
    return ("std::allocator<vh::%s>" % flav, "std")


class Cfg:
    def __init__(self, name, flav, n, m, alloc, twin=""):
        self.name, self.flav, self.n, self.m = name, flav, n, m
        self.alloc_type, self.alloc_name = alloc
        self.twin = twin

    @property
    def copyable(self):
        return self.flav not in ("MO", "MOT")

    @property
    def tracked_elems(self):
        return self.flav != "TRIV"

    @property
    def tracked_alloc(self):
        return self.alloc_name != "std"

    def source(self):
        return ('#include "interp.hpp"\n'
                'typedef %s VH_AL_%s;\n'
                'VH_DEFINE_CONFIG(%s, %s, %d, %d, VH_AL_%s, "%s", "%s")\n'
                % (self.alloc_type, self.name, self.name, self.flav, self.n, self.m, self.name, self.alloc_name, self.twin))


# Quick grid: every flavour, every N in {0,1,2,3,4,5,8}, all 11 allocator configurations,
# the relations N<M, N>M, N=M, N=0, M=0; q2/q13 are the trivially copyable twins (C13).
QUICK = [
    Cfg("q1", "NT", 3, 8, STD("NT"), twin="q2"),
    Cfg("q2", "TRIV", 3, 8, STD("TRIV")),
    Cfg("q3", "TM", 2, 5, TA("TM", 0, 0, 0)),
    Cfg("q4", "NT", 0, 3, TA("NT", 1, 1, 1)),
    Cfg("q5", "MO", 4, 0, TA("MO", 0, 1, 0)),
    Cfg("q6", "CO", 1, 2, TA("CO", 1, 0, 0)),
    Cfg("q7", "NT", 5, 2, TA("NT", 0, 0, 1)),
    Cfg("q8", "TM", 8, 4, TA("TM", 1, 1, 0)),
    Cfg("q9", "TRIV", 0, 3, TA("TRIV", 1, 0, 1)),
    Cfg("q10", "MOT", 3, 3, TA("MOT", 0, 1, 1)),
    Cfg("q11", "NT", 2, 5, TA("NT", 0, 0, 0, ae=1)),
    Cfg("q12", "NTA", 4, 8, TA("NTA", 1, 1, 1, ae=1)),
    Cfg("q13", "NT", 0, 3, TA("NT", 1, 0, 1), twin="q9"),
    Cfg("q14", "TRIV", 5, 2, TA("TRIV", 0, 0, 0)),
    # allocator with construct()/destroy() members: byte-copy shortcuts must be off even for TRIV
    Cfg("q15", "TRIV", 3, 8, TA("TRIV", 0, 1, 0, construct=1)),
    # narrow (16-bit) size_type: sizes and capacities are stored narrow, computed wide
    Cfg("q16", "NT", 3, 8, TA("NT", 0, 1, 0, size_t="std::uint16_t")),
    # throwing-move element with an inline capacity of 0 on one side (converting moves from N = 0)
    Cfg("q17", "TM", 0, 4, TA("TM", 0, 1, 1)),
    # reachable max_size (): growth must saturate, not degrade (programs stay below it)
    Cfg("q18", "NT", 4, 0, TA("NT", 0, 0, 0, maxsz=120)),
]

# Thorough grid adds a pairwise-ish cover of flavour x (N,M) x allocator.
_PAIRS = [(0, 3), (3, 0), (1, 2), (2, 5), (3, 3), (4, 8), (8, 4), (5, 2)]
_ALLOCS = [(0, 0, 0, 0), (1, 0, 0, 0), (0, 1, 0, 0), (0, 0, 1, 0), (1, 1, 0, 0), (1, 0, 1, 0), (0, 1, 1, 0), (1, 1, 1, 0),
           (0, 0, 0, 1), (1, 1, 1, 1)]
_FLAVS = ["NT", "TM", "MO", "MOT", "CO", "NTA", "TRIV"]


def thorough_grid():
    out = list(QUICK)
    have = set((c.flav, c.n, c.m, c.alloc_name) for c in out)
    k = 0
    # deterministic cover: walk a Latin-square like schedule so that every pair of factor
    # levels (flavour, capacity pair), (flavour, allocator), (capacity pair, allocator) occurs
    idx = 0
    for i, fl in enumerate(_FLAVS):
        for j, (n, m) in enumerate(_PAIRS):
            a = _ALLOCS[(i * 3 + j * 7 + 1) % len(_ALLOCS)]
            alloc = TA(fl, *a)
            if (i + j) % 5 == 0:
                alloc = STD(fl)
            key = (fl, n, m, alloc[1])
            if key in have:
                continue
            have.add(key)
            idx += 1
            if (i + j) % 2 == 1:
                continue   # keep the grid near 40 TUs
            out.append(Cfg("t%d" % idx, fl, n, m, alloc))
    # TRIV twins for C13 on two more shapes
    out.append(Cfg("tw1", "NT", 2, 5, TA("NT", 0, 0, 0), twin="tw2"))
    out.append(Cfg("tw2", "TRIV", 2, 5, TA("TRIV", 0, 0, 0)))
    out.append(Cfg("tw3", "NT", 8, 4, TA("NT", 1, 1, 1), twin="tw4"))
    out.append(Cfg("tw4", "TRIV", 8, 4, TA("TRIV", 1, 1, 1)))
    return out


def grid(tier):
    return QUICK if tier == "quick" else thorough_grid()
