"""Engine `hist` / `fault`: the rapidcheck-driven program interpreter."""
import json
import os
import shutil
import time

from . import common as C
from . import configs

CXX = os.environ.get("VERIF_CXX", "g++")
STD = "-std=gnu++17"

# property -> (level, which configs, cases per worker quick/thorough, shards quick/thorough, max_len q/t, modes)
PROPS = {
    "C01": dict(level="exploration", sel=lambda c: True, cases=(30000, 150000), max_len=(60, 120)),
    "C02": dict(level="exploration", sel=lambda c: True, cases=(25000, 120000), max_len=(60, 120), fault_phase=(4000, 40000)),
    "C03": dict(level="exploration", sel=lambda c: c.tracked_elems, cases=(25000, 120000), max_len=(60, 120), fault_phase=(4000, 40000)),
    "C04": dict(level="exploration", sel=lambda c: c.tracked_alloc, cases=(20000, 100000), max_len=(60, 120), modes=("", "small"), fault_phase=(4000, 40000)),
    "C05": dict(level="fault_enumeration", sel=lambda c: True, cases=(15000, 120000), max_len=(25, 25), fault=True),
    "C06": dict(level="fault_enumeration", sel=lambda c: True, cases=(12000, 100000), max_len=(25, 25), fault=True),
    "C18": dict(level="fault_enumeration", sel=lambda c: True, cases=(6000, 50000), max_len=(25, 25), fault=True),
    "C07": dict(level="exploration", sel=lambda c: c.tracked_alloc, cases=(25000, 120000), max_len=(60, 120)),
    "C09": dict(level="exploration", sel=lambda c: True, cases=(25000, 120000), max_len=(60, 120)),
    "C10": dict(level="exploration", sel=lambda c: True, cases=(25000, 120000), max_len=(60, 120)),
    "C11": dict(level="exploration", sel=lambda c: c.copyable, cases=(30000, 150000), max_len=(50, 100)),
    "C13": dict(level="exploration", sel=lambda c: c.twin != "", cases=(40000, 200000), max_len=(60, 120)),
    "C14": dict(level="exploration", sel=lambda c: True, cases=(25000, 120000), max_len=(60, 120), modes=("", "long"), mode_cases={"long": (150, 1500)}),
    "C15": dict(level="exploration", sel=lambda c: True, cases=(25000, 120000), max_len=(60, 120)),
}


def build(tier):
    """Builds the hist binary for the tier's configuration grid; returns its path."""
    grid = configs.grid(tier)
    srcs = [os.path.join(C.HARNESS, n) for n in ("core.hpp", "elem.hpp", "alloc.hpp", "iters.hpp", "program.hpp", "interp.hpp",
                                                  "interp_base.inc", "interp_ops1.inc", "interp_ops2.inc", "interp_run.inc", "hist_main.cpp")]
    key = C.sha_files([C.HEADER] + srcs, "|".join(c.source() for c in grid) + CXX + STD + " ".join(C.SAN_FLAGS))
    with C.BuildDir("hist-" + tier, key) as bd:
        exe = bd.file("hist")
        if bd.done("hist") and os.path.exists(exe):
            os.utime(bd.path)
            return exe, None
        t0 = time.time()
        units = []
        objs = []
        for c in grid:
            src = bd.file("cfg_%s.cpp" % c.name)
            with open(src, "w") as f:
                f.write(c.source())
            obj = bd.file("cfg_%s.o" % c.name)
            objs.append(obj)
            units.append(([CXX, STD] + C.SAN_FLAGS + ["-I", C.HARNESS, "-I", C.INCLUDE, "-c", src, "-o", obj], c.name))
        mobj = bd.file("hist_main.o")
        units.append(([CXX, STD] + C.SAN_FLAGS + ["-I", C.HARNESS, "-c", os.path.join(C.HARNESS, "hist_main.cpp"), "-o", mobj], "main"))
        bad = C.compile_many(units)
        if bad:
            return None, "harness failed to compile against the tree:\n" + "\n".join("[%s]\n%s" % (b[0], b[2][-3000:]) for b in bad[:3])
        rc, out, err = C.run([CXX, "-fsanitize=address,undefined", mobj] + objs + ["-lrapidcheck", "-o", exe], timeout=1800)
        if rc != 0:
            return None, "link failed:\n" + err[-3000:]
        bd.mark("hist")
        C.log("built %s in %.0f s" % (exe, time.time() - t0))
    C.prune_builds("hist-" + tier)
    return exe, None


FUZZ_CFGS = ["q1", "q2", "q3", "q4", "q5", "q9", "q11", "q13"]
OPNAMES = None


def build_fuzz():
    """libFuzzer build of the interpreter (clang++), thorough tier only."""
    grid = [c for c in configs.QUICK if c.name in FUZZ_CFGS]
    srcs = [os.path.join(C.HARNESS, n) for n in ("core.hpp", "elem.hpp", "alloc.hpp", "iters.hpp", "program.hpp", "interp.hpp", "checker.hpp",
                                                  "interp_base.inc", "interp_ops1.inc", "interp_ops2.inc", "interp_run.inc", "fuzz_hist.cpp")]
    key = C.sha_files([C.HEADER] + srcs, "fuzz" + "|".join(c.source() for c in grid))
    with C.BuildDir("fuzz", key) as bd:
        exe = bd.file("fuzz_hist")
        if bd.done("fuzz") and os.path.exists(exe):
            os.utime(bd.path)
            return exe, None
        flags = ["-std=gnu++17", "-g", "-O1", "-fno-sanitize-recover=undefined"]
        units, objs = [], []
        for c in grid:
            src = bd.file("cfg_%s.cpp" % c.name)
            with open(src, "w") as f:
                f.write(c.source())
            obj = bd.file("cfg_%s.o" % c.name)
            objs.append(obj)
            units.append((["clang++"] + flags + ["-fsanitize=fuzzer-no-link,address,undefined", "-I", C.HARNESS, "-I", C.INCLUDE, "-c", src, "-o", obj], c.name))
        mobj = bd.file("fuzz_hist.o")
        units.append((["clang++"] + flags + ["-fsanitize=fuzzer-no-link,address,undefined", "-I", C.HARNESS, "-c", os.path.join(C.HARNESS, "fuzz_hist.cpp"), "-o", mobj], "main"))
        bad = C.compile_many(units)
        if bad:
            return None, "fuzz harness failed to compile:\n" + bad[0][2][-2500:]
        rc, out, err = C.run(["clang++", "-fsanitize=fuzzer,address,undefined", mobj] + objs + ["-o", exe], timeout=1800)
        if rc != 0:
            return None, "fuzz link failed:\n" + err[-2500:]
        bd.mark("fuzz")
    C.prune_builds("fuzz")
    return exe, None


def text_to_bytes(text, cfg_index):
    """Encodes a replay-format program as fuzz input (cfg byte + 7 bytes per op)."""
    global OPNAMES
    out = bytearray([cfg_index & 0xff])
    for line in text.splitlines():
        if not line.startswith("op "):
            continue
        w = line.split()
        kv = dict(x.split("=") for x in w[2:])
        out += bytes([OPNAMES.index(w[1]), int(kv["t"]), int(kv["s"]), int(kv["a"]), int(kv["b"]), int(kv["c"]), int(kv["d"])])
    return bytes(out)


def fuzz_phase(prop, seed, seconds, procs, hist_exe, verdict, fault=False):
    """Coverage-guided supplement: returns (violations, stats dict)."""
    global OPNAMES
    exe, err = build_fuzz()
    if exe is None:
        verdict.notes.append("libFuzzer supplement skipped: " + err[-300:])
        return 0, dict(fuzz_execs=0, fuzz_note="build failed")
    import re
    with open(os.path.join(C.HARNESS, "program.hpp")) as f:
        OPNAMES = re.findall(r"^\s*X \((\w+),", f.read(), re.M)
    work = os.path.join(os.path.dirname(exe), "run-%s-%d" % (prop, os.getpid()))
    os.makedirs(work, exist_ok=True)
    # seed corpus from the rapidcheck generator
    emit = os.path.join(work, "seed.txt")
    C.run([hist_exe, "--prop", prop if prop in PROPS else "C01", "--cfg", "q1", "--seed", str(seed), "--cases", "300", "--max-len", "30", "--emit", emit], timeout=600)
    texts = []
    try:
        with open(emit) as f:
            texts = f.read().split("verif-replay 1\n")[1:]
    except OSError:
        pass
    jobs = []
    for i in range(procs):
        cdir = os.path.join(work, "corpus%d" % i)
        os.makedirs(cdir, exist_ok=True)
        for k, t in enumerate(texts[i::procs][:40]):
            with open(os.path.join(cdir, "seed%d" % k), "wb") as f:
                f.write(text_to_bytes(t, (i + k) % len(FUZZ_CFGS)))
        jobs.append((i, cdir))

    def one(j):
        i, cdir = j
        env = dict(C.RUN_ENV, VERIF_FUZZ_PROP=prop, VERIF_FUZZ_OUT=work, VERIF_FUZZ_FAULT="1" if fault else "0")
        return C.run([exe, cdir, "-seed=%d" % (seed * 100 + i + 1), "-max_total_time=%d" % seconds, "-max_len=600", "-timeout=60",
                      "-artifact_prefix=%s/art%d-" % (work, i), "-print_final_stats=1", "-verbosity=0"], timeout=seconds + 600, env=env)

    results = C.parallel(jobs, one)
    execs = 0
    for rc, out, err in results:
        m = re.search(r"stat::number_of_executed_units:\s*(\d+)", out + err)
        if m:
            execs += int(m.group(1))
    nviol = 0
    for name in sorted(os.listdir(work)):
        if name.startswith("fuzz-failure-") and name.endswith(".replay"):
            src = os.path.join(work, name)
            dest = os.path.join(C.REPLAYS_TMP, "%s-%s" % (prop, name))
            shutil.copyfile(src, dest)
            confirmed, last = replay_fails(hist_exe, dest, prop)
            if not confirmed:
                verdict.notes.append("libFuzzer failure %s did not reproduce 3/3 with the replay binary" % name)
                continue
            clause = ""
            for l in last.splitlines():
                if l.startswith("FAIL clause="):
                    clause = l.split()[1].split("=", 1)[1]
            k = C.match_known(prop, dict(clause=clause, final_op="", fault="", flavour="", cfg="", alloc=""))
            if k:
                verdict.known_finding(k["id"], k["what"])
            else:
                verdict.violation(dest, "libFuzzer: " + (last.strip().splitlines()[-1][:300] if last.strip() else clause))
                nviol += 1
    # crash-* artifacts without a replay file: sanitizer reports inside the library
    arts = [n for n in os.listdir(work) if n.startswith("art") and "crash-" in n]
    reps = [n for n in os.listdir(work) if n.startswith("fuzz-failure-")]
    if arts and not reps:
        dest = os.path.join(C.REPLAYS_TMP, "%s-fuzz-%s" % (prop, arts[0]))
        shutil.copyfile(os.path.join(work, arts[0]), dest)
        rc, out, err = C.run([exe, dest], timeout=300, env=dict(C.RUN_ENV, VERIF_FUZZ_PROP=prop, VERIF_FUZZ_FAULT="1" if fault else "0"))
        if rc != 0:
            first = [l for l in (out + err).splitlines() if "ERROR" in l or "runtime error" in l]
            verdict.violation(dest, "libFuzzer crash artifact (re-run: %s %s): %s" % (exe, dest, first[0][:200] if first else ""))
            nviol += 1
    shutil.rmtree(work, ignore_errors=True)
    return nviol, dict(fuzz_execs=execs, fuzz_processes=procs, fuzz_seconds=seconds)


def replay_fails(exe, path, prop, times=3):
    """True when the replay file fails (oracle failure or crash) `times` out of `times`."""
    n = 0
    last = ""
    for _ in range(times):
        rc, out, err = C.run([exe, "--replay", path, "--prop", prop], timeout=300)
        if rc != 0:
            n += 1
            last = (out + err)[-2000:]
    return n == times, last


def parse_replay(text):
    head, ops = [], []
    for line in text.splitlines():
        (ops if line.startswith("op ") else head).append(line)
    return head, ops


def minimise_crash(exe, path, prop):
    """Delta debugging over the op list of a crashing case (sanitizer abort / terminate)."""
    with open(path) as f:
        head, ops = parse_replay(f.read())
    fault = any(l.startswith("fault ") for l in head)

    def crashes(cand):
        tmp = path + ".dd"
        with open(tmp, "w") as f:
            f.write("\n".join(head + cand) + "\n")
        rc, out, err = C.run([exe, "--replay", tmp, "--prop", prop], timeout=120)
        return rc not in (0, 1, 3)

    if not crashes(ops):
        return False
    keep_last = 1 if fault else 0
    n = 2
    budget = 300
    while len(ops) - keep_last >= 2 and budget > 0:
        body = ops[:len(ops) - keep_last]
        tail = ops[len(ops) - keep_last:]
        chunk = max(1, len(body) // n)
        reduced = False
        for i in range(0, len(body), chunk):
            cand = body[:i] + body[i + chunk:] + tail
            budget -= 1
            if crashes(cand):
                ops = cand
                n = max(n - 1, 2)
                reduced = True
                break
        if not reduced:
            if chunk == 1:
                break
            n = min(n * 2, len(body))
    with open(path, "w") as f:
        f.write("\n".join(head + ops) + "\n")
    try:
        os.remove(path + ".dd")
    except OSError:
        pass
    return True


def run_check(prop, tier, verdict, extra_args=None):
    seed = C.seed_from_env()
    spec = PROPS[prop]
    t0 = time.time()
    exe, err = build(tier)
    if exe is None:
        print("BUILD-ERROR " + err)
        return 2, None
    ti = 0 if tier == "quick" else 1
    grid = [c for c in configs.grid(tier) if spec["sel"](c)]
    modes = spec.get("modes", ("",))
    shards = max(1, (C.JOBS * (1 if tier == "quick" else 2)) // max(1, len(grid) * (len(modes) + (1 if spec.get("fault_phase") else 0))))
    outdir = os.path.join(os.path.dirname(exe), "run-%s-%s-%d" % (prop, tier, os.getpid()))
    os.makedirs(outdir, exist_ok=True)
    os.makedirs(C.REPLAYS_TMP, exist_ok=True)
    jobs = []
    phases = [(m, False) for m in modes] + ([("", True)] if spec.get("fault_phase") else [])
    # keep worker processes short-lived (bounded memory): at most CHUNK cases per process
    CHUNK = 40000
    for c in grid:
        for mode, fph in phases:
            total = spec["fault_phase"][ti] if fph else spec.get("mode_cases", {}).get(mode, spec["cases"])[ti]
            nsh = max(shards, (total + CHUNK - 1) // CHUNK)
            for sh in range(nsh):
                wseed = seed * 1000 + len(jobs) + 1
                tag = "%s%s%s-%d" % (c.name, "-" + mode if mode else "", "-fault" if fph else "", sh)
                jobs.append(dict(cfg=c, mode=mode, seed=wseed, tag=tag, fault_phase=fph, ncases=max(1, total // nsh) if (nsh > shards or tier == "thorough") else total,
                                 stats=os.path.join(outdir, tag + ".json"),
                                 fp=os.path.join(outdir, tag + ".fp"),
                                 replay=os.path.join(outdir, tag + ".replay"),
                                 crash=os.path.join(outdir, tag + ".crash")))

    def one(j):
        ncases = j["ncases"]
        cmd = [exe, "--prop", prop, "--cfg", j["cfg"].name, "--seed", str(j["seed"]),
               "--cases", str(ncases), "--max-len", str(25 if j["fault_phase"] else spec["max_len"][ti]),
               "--out", j["stats"], "--fp-out", j["fp"], "--replay-out", j["replay"], "--crash-out", j["crash"]]
        if j["mode"]:
            cmd += ["--mode", j["mode"]]
        if j["fault_phase"]:
            cmd += ["--fault"]
        if extra_args:
            cmd += extra_args
        rc, out, err = C.run(cmd, timeout=7200)
        return rc, out, err

    # regression corpus first: replays of fixed defects and of listed findings
    nviol = 0
    regress_run = 0
    rdir = os.path.join(C.VERIF, "replays", "regress")
    have_cfgs = set(c.name for c in configs.grid(tier))
    for name in sorted(os.listdir(rdir)) if os.path.isdir(rdir) else []:
        if not name.startswith(prop + "-") or not name.endswith(".replay"):
            continue
        path = os.path.join(rdir, name)
        with open(path) as f:
            txt = f.read()
        cfgname = [l.split()[1] for l in txt.splitlines() if l.startswith("cfg ")]
        if not cfgname or cfgname[0] not in have_cfgs:
            continue
        regress_run += 1
        bad, last = replay_fails(exe, path, prop)
        if bad:
            verdict.violation(path, "regression replay %s fails again: %s" % (name, last.strip().splitlines()[-1] if last.strip() else ""))
            nviol += 1
    for k in C.findings_for(prop):
        rp = k.get("replay")
        if not rp:
            continue
        path = os.path.join(C.VERIF, rp)
        if not os.path.exists(path):
            continue
        regress_run += 1
        bad, last = replay_fails(exe, path, prop)
        if bad:
            verdict.known_finding(k["id"], k["what"])
        else:
            verdict.notes.append("listed finding %s no longer reproduces from its replay" % k["id"])

    results = C.parallel(jobs, one)
    # merge
    fps = set()
    tot = dict(cases=0, executions=0, steps=0, skipped_ops=0, fault_points=0, faults_injected=0, faults_second=0, strong_checked=0)
    classes, fault_labels, final_ops, samples = {}, {}, {}, []
    failures = []
    incomplete = []
    for j, (rc, out, err) in zip(jobs, results):
        st = None
        try:
            with open(j["stats"]) as f:
                st = json.load(f)
        except (OSError, ValueError):
            st = None
        if st is None or not st.get("end"):
            # the worker died: sanitizer abort, terminate, signal
            incomplete.append((j, rc, (out + err)[-3000:]))
            continue
        for k in tot:
            tot[k] += st.get(k, 0)
        for name, dst in (("classes", classes), ("fault_labels", fault_labels), ("final_ops", final_ops)):
            for k, v in st.get(name, {}).items():
                dst[k] = dst.get(k, 0) + v
        if len(samples) < 6:
            samples += st.get("samples", [])[:2]
        try:
            with open(j["fp"]) as f:
                fps.update(l.strip() for l in f if l.strip())
        except OSError:
            pass
        if st.get("failure"):
            failures.append((j, st["failure"]))

    for j, fl in failures:
        dest = os.path.join(C.REPLAYS_TMP, "%s-%s-%d.replay" % (prop, j["tag"], seed))
        shutil.copyfile(j["replay"], dest)
        confirmed, last = replay_fails(exe, dest, prop)
        facts = dict(clause=fl.get("clause", ""), final_op=fl.get("final_op", ""), fault=fl.get("fault_label", ""),
                     flavour=j["cfg"].flav, cfg=j["cfg"].name, alloc=j["cfg"].alloc_name)
        text = "cfg=%s clause=%s %s" % (j["cfg"].name, fl.get("clause"), fl.get("detail"))
        if not confirmed:
            verdict.notes.append("unconfirmed (did not reproduce 3/3): " + text)
            continue
        k = C.match_known(prop, facts)
        if k:
            verdict.known_finding(k["id"], k["what"])
        else:
            verdict.violation(dest, text)
            nviol += 1
    for j, rc, tail in incomplete:
        if not os.path.exists(j["crash"]):
            # killed from outside (SIGKILL: out of memory / timeout) - run it once more; a death that
            # repeats is the tree's doing (e.g. a library loop that never ends), not load noise
            rc2, out2, err2 = one(j)
            try:
                with open(j["stats"]) as f:
                    again = json.load(f).get("end")
            except (OSError, ValueError):
                again = False
            if again and not os.path.exists(j["crash"]):
                verdict.notes.append("worker %s died once (status %s) and completed when repeated" % (j["tag"], rc))
                print("INCONCLUSIVE worker %s died once (status %s); its cases are not counted" % (j["tag"], rc))
                continue
            if not os.path.exists(j["crash"]):
                dest = os.path.join(C.REPLAYS_TMP, "%s-%s-%d-died.txt" % (prop, j["tag"], seed))
                diag = [l for l in (out2 + err2).splitlines() if "runtime error" in l or "ERROR: " in l or "Assertion" in l]
                with open(dest, "w") as f:
                    f.write("worker died twice without leaving a case (status %s, %s)\ncommand: %s --prop %s --cfg %s --seed %s ...\n%s\n%s\n"
                            % (rc, rc2, exe, prop, j["cfg"].name, j["seed"], "\n".join(diag[:5]), (out2 + err2)[-3000:]))
                verdict.violation(dest, "cfg=%s worker dies reproducibly (status %s): %s" % (j["cfg"].name, rc2, diag[0].strip()[:300] if diag else "runaway memory or a loop that never ends inside the library"))
                nviol += 1
                continue
        dest = os.path.join(C.REPLAYS_TMP, "%s-%s-%d-crash.replay" % (prop, j["tag"], seed))
        shutil.copyfile(j["crash"], dest)
        if not minimise_crash(exe, dest, prop):
            verdict.notes.append("crash of worker %s did not reproduce from its case file" % j["tag"])
            continue
        confirmed, last = replay_fails(exe, dest, prop)
        kind = "terminate" if "VERIF-TERMINATE" in last else ("sanitizer" if "Sanitizer" in last or "runtime error" in last else "crash")
        with open(dest) as f:
            head, ops = parse_replay(f.read())
        final_op = ops[-1].split()[1] if ops else ""
        facts = dict(clause="crash." + kind, final_op=final_op, fault="", flavour=j["cfg"].flav, cfg=j["cfg"].name, alloc=j["cfg"].alloc_name)
        text = "cfg=%s %s while executing the case (last op %s)" % (j["cfg"].name, kind, final_op)
        if confirmed:
            k = C.match_known(prop, facts)
            if k:
                verdict.known_finding(k["id"], k["what"])
            else:
                verdict.violation(dest, text + "\n  " + last.strip().splitlines()[0] if last.strip() else text)
                nviol += 1

    cov = dict(
        evaluations=int(tot["executions"]),
        distinct_nontrivial=len(fps),
        rule=RULES[prop],
        samples=samples[:6],
        cases_generated=int(tot["cases"]),
        operations_executed=int(tot["steps"]),
        operations_skipped=int(tot["skipped_ops"]),
        configurations=[dict(name=c.name, flavour=c.flav, N=c.n, M=c.m, allocator=c.alloc_name) for c in grid],
        workers=len(jobs),
        class_histogram=classes,
        workers_died=len(incomplete),
        regression_replays_run=regress_run,
    )
    if spec.get("fault") or spec.get("fault_phase"):
        cov.update(fault_points_enumerated=int(tot["fault_points"]), faults_injected=int(tot["faults_injected"]),
                   second_faults_in_handlers=int(tot["faults_second"]), strong_oracle_evaluations=int(tot["strong_checked"]),
                   fault_labels=fault_labels, final_operations=final_ops,
                   exhaustive_per_case="every eligible single fault point of the final operation is enumerated for each generated (prefix, operation)")
    shutil.rmtree(outdir, ignore_errors=True)
    if tier == "thorough" and os.environ.get("VERIF_NO_FUZZ") != "1":
        fv, fst = fuzz_phase(prop, seed, int(os.environ.get("VERIF_FUZZ_SECONDS", "150")), 8, exe, verdict, fault=bool(spec.get("fault")))
        nviol += fv
        cov.update(fst)
        cov["evaluations"] += fst.get("fuzz_execs", 0)
    return nviol, dict(cov=cov, wall=time.time() - t0, seed=seed)


RULES = {
    "C18": "static: exhaustive grid of noexcept(...) values vs the documented conditions; run-time: case = (fault-free prefix, any operation), every fault point enumerated, std::terminate intercepted, noexcept operations must reach no eligible throw point; non-trivial = a documented value that is false because of exactly one factor (static) / a fault that fired after an earlier eligible event (run-time)",
    "C01": "rapidcheck-generated programs (relative-argument ops over 4 slots); non-trivial = history contains an inline<->heap transition and a mid-sequence insert/erase after it; distinct by 64-bit fingerprint of (configuration, op list)",
    "C02": "same generator, whole-container-heavy weights; non-trivial = some slot passed through >= 3 of the representation classes {fresh-inline, heap, shrunk-back-inline, stolen-from, element-wise-moved-from, post-throw}",
    "C03": "same generator; non-trivial = history contains >= 1 reallocation, >= 1 mid-sequence shift and >= 1 whole-container transfer",
    "C04": "whole-container-heavy weights plus a small-only mode (one container, size never exceeds N); non-trivial = a heap buffer had >= 2 owners, or an op met the 'fits' premise with size within 1 of capacity; small-only: the inline buffer was filled completely",
    "C05": "case = (fault-free prefix of <= 25 ops, final op from the strong-guarantee list); every eligible single fault point (element constructors, allocate) of the final op is enumerated; non-trivial = the fault fired after at least one earlier eligible event inside the call; distinct by fingerprint of (configuration, ops, k)",
    "C06": "case = (fault-free prefix, any operation); every single fault point (element ctor/assign, allocate, iterator deref/increment, generator call) is enumerated and, for operations with roll-back handlers, pairs (k, j<=6); non-trivial = fault after an earlier eligible event or a second fault inside a handler",
    "C07": "whole-container-heavy weights over the allocator configurations; non-trivial = a copy/move/swap/assign between containers whose allocator ids are unequal with at least one side on the heap",
    "C09": "whole-container-heavy weights; non-trivial = steal premise true across different inline capacities, or false because N_dest >= source.capacity() > N_source",
    "C10": "growth-heavy weights with counts biased to capacity-size-1/0/+1; non-trivial = an op landed within +-1 of the capacity boundary, or reserve(n) with n == capacity()",
    "C11": "alias-heavy weights (44% alias ops); non-trivial = the aliased element lies in the shifted part (i >= pos) or the call reallocated",
    "C13": "each program is run on a non-trivial configuration and on its trivially-copyable twin and the observation traces are compared; non-trivial = program contains a mid-sequence erase/insert (memmove) and a range op from a contiguous source (memcpy)",
    "C14": "growth-heavy weights; non-trivial = a reallocating call whose required capacity was <= 1.5x the old capacity (where linear and geometric growth differ)",
    "C15": "range-heavy weights over 10 iterator kinds; non-trivial = single-pass range longer than the free capacity, or assign from a single-pass range of a different length, or single-pass insert mid-sequence",
}
