"""Generates MANIFEST.json from the engine tables (run: python3 -m vlib.manifest_gen)."""
import json
import os

from . import common as C

LEVEL_TEXT = {
    "C01": ("exploration", "Model-based property test: rapidcheck-generated call histories over four interacting containers are executed against std::vector<int> models; values, sizes, returned positions/references and at() behaviour are compared after every operation, across 18 (quick) / ~50 (thorough) configurations of element flavour x inline capacities x allocator. Inputs of a different value type (72 From->To pairs x 11 iterator kinds x range ctor/assign/insert/append/emplace) are compared with the same call on std::vector<To>. Search, not proof.", "§4 C01"),
    "C02": ("exploration", "Invariant probe (size/capacity/inlined/data()-inside-object/ledger block/contiguity/iterator agreement/canaries) evaluated on every container after every generated operation, including moved-from and shrunk-back states; post-throw states are covered by the C06 fault enumeration which runs the same probe.", "§4 C02"),
    "C03": ("exploration", "Address-keyed element registry traps construct-over-live, destroy/assign/read of dead storage; after every operation the live set must be exactly the containers' elements, and empty after teardown.", "§4 C03"),
    "C04": ("exploration", "Allocator ledger (block, n, allocating id) traps unknown/mismatched deallocation; after every operation live blocks must be exactly the heap containers' buffers; allocate calls are counted per operation against the 'fits => no allocate' rule, and a small-only generator mode checks that containers that never exceed N never touch the allocator.", "§4 C04"),
    "C05": ("fault_enumeration", "For each generated (state, growing call) every single throw point among element constructors and allocate inside the call is enumerated; after the throw the container must equal its snapshot (values, size, capacity, data()) with nothing leaked.", "§4 C05"),
    "C06": ("fault_enumeration", "For each generated (state, any operation) every single throw point (element ctor/assign, allocate, iterator deref/increment, generator) and pairs inside roll-back handlers are enumerated; afterwards invariants, lifetime/ledger conservation and a follow-up suite must hold.", "§4 C06"),
    "C07": ("exploration", "Model of the allocator id each container must report under the propagation traits, compared with get_allocator() after every generated operation over all 8 POCCA/POCMA/POCS combinations plus always-equal controls, with the ledger checking that storage traffic uses the current allocator.", "§4 C07"),
    "C09": ("exploration", "Steal premise computed from the model for every generated move construction / move assignment / swap; when it holds data() must be the source's old buffer, no element event may hit the transferred elements and the source must be empty and inlined.", "§4 C09"),
    "C10": ("exploration", "Per-operation oracle: if the result fits the prior capacity then capacity()/data() are unchanged and the element registry shows zero events on the prefix; reserve/erase/clear rules; at most one allocate and one relocation per old element for calls that know their count.", "§4 C10"),
    "C11": ("exploration", "Metamorphic relation: an aliasing call must equal copy-then-call on the model, over generated (i, pos, n, state) with alias-heavy weights.", "§4 C11"),
    "C12": ("exploration", "Exhaustive enumeration for the 8-bit size_type (every size, operation, count/range length up to and beyond the numeric maximum, three positions) plus boundary grids and rapidcheck boundary-biased cases for 16/32-bit size_types and allocators with max_size()=1000, in an assert-enabled and an NDEBUG build: length_error, no effect, allocate(n) <= max_size(), size() <= max_size(), no wrapped arithmetic (ASan).", "§4 C12"),
    "C13": ("exploration", "Differential: the same generated program runs on a non-trivial element type and on its trivially copyable twin; full observation traces (values, sizes, capacities, data() stability, allocate counts) must be identical; object canaries and ASan guard bytes outside storage. Plus a converting-input differential (72 From->To pairs x 11 iterator kinds x operations, values vs static_cast and vs std::vector<To>, four builds) and compile probes over minimal-requirement archetypes (trivial twin must compile whenever the non-trivial one does).", "§4 C13"),
    "C14": ("exploration", "Growth probe on every reallocating listed call: new capacity >= required and >= 1.5x old unless saturated at max_size().", "§4 C14"),
    "C15": ("exploration", "Instrumented single-pass iterators (shared cursor) trap double dereference, skipped positions, stale copies and access at/past last; multi-pass iterators trap walking outside [first,last]; generator call log; result compared with the model.", "§4 C15"),
    "C16": ("exploration", "Exhaustive differential test against std::vector over all pairs of small contents x capacity pairs x four element types for ==, !=, <, <=, >, >= and <=>, with consistency laws, in four builds (g++/clang++ x C++17/C++20) whose verdict tables are cross-checked; non-member erase/erase_if/swap/accessors; rapidcheck contents beyond the bound.", "§4 C16"),
    "C18": ("fault_enumeration", "Static: generated TUs tabulate noexcept(...) for every documented operation over {nothrow/throwing move ctor, move assign, swap} x N x source capacity relation x allocator traits x standards and compare with independently coded README conditions; iterator/nested-type facts. Run-time: every fault point of every generated (state, operation) is injected; a std::terminate is a violation; operations declared noexcept must reach no potentially-throwing point.", "§4 C18"),
    "C19": ("exploration", "Exhaustive configuration grid (3408 points per ideal size): sizeof/alignof/default_buffer_size of real instantiations compared with the property's own statement (largest count fitting 64 bytes, else 1; N=0 stateless = pointer + 2 size_type; alignment), evaluated independently in Python.", "§4 C19"),
    "C08": ("exploration", "Differential between constant evaluation and run time: rapidcheck-generated operation programs are embedded in generated translation units, `constexpr auto ct = run(prog)` must be accepted by g++ and clang++ (whose evaluators reject UB, out-of-lifetime access and unreleased allocations) and must equal the run-time result (ASan+UBSan) of the same function on the same bytes; rejected programs are bisected and delta-debugged.", "§4 C08"),
    "C17": ("exploration", "Cross-build differential: one C++11-clean interpreter source is built under 10-12 (compiler, standard, GCH_DISABLE_CONCEPTS) combinations; every build executes the same rapidcheck-generated corpus over 5 configurations and must print identical observation-trace digests (values, sizes, capacities, positions, exceptions, allocate counts), and a configuration must compile under all standards or none.", "§4 C17"),
    "C20": ("exploration", "Generated container states in a real debuggee under gdb -batch with the shipped printer: printed length/capacity, children (by value), iterator printers and the natvis member paths are compared with the program's own record, in a g++ and a clang++ build.", "§4 C20"),
}


def manifest(claimed, not_applicable):
    checks = []
    for p in sorted(claimed):
        lvl, text, ref = LEVEL_TEXT[p]
        checks.append({
            "property_id": p,
            "quick_cmd": "./verif check %s --tier quick" % p,
            "thorough_cmd": "./verif check %s --tier thorough" % p,
            "evidence_file": "evidence/%s.json" % p,
            "replay_cmd_template": "./verif replay %s {path}" % p,
            "engine": claimed[p],
            "level_claimed": {"category": lvl, "text": text, "design_ref": ref},
            "level_note": "Trusted base: g++ 12 / clang 14 with libstdc++ 12 and their sanitizers, rapidcheck, the harness' reference model and instrumented types (validated by hand-adjudicating every alarm on the unchanged tree and by independently written seeded changes, DESIGN.md §9/§10). Verdicts are 'held on everything generated', never absence of violations.",
            "technique": TECHNIQUE[p],
        })
    return {
        "version": 1,
        "setup_cmd": "./verif setup",
        "hooks": {
            "guard": "GCH_SMALL_VECTOR_VERIF",
            "enable": "no hooks are needed: all observation goes through the public API, instrumented element/allocator/iterator types, the compiler and gdb",
            "baseline_off_cmd": "ctest --test-dir /repo/_build -j8 --timeout 900",
            "source_commits": [],
            "add_only": True,
        },
        "engines": ENGINES,
        "checks": checks,
        "notes": "Driver: ./verif check <Cxx> --tier quick|thorough (reads VERIF_SEED). Binaries are rebuilt from /repo's working tree keyed by a content hash of the header. See DESIGN.md.",
        "not_applicable": [{"property_id": p, "reason": r} for p, r in sorted(not_applicable.items())],
    }


TECHNIQUE = {
    "C01": "stateful model-based property testing (rapidcheck) against a std::vector reference model",
    "C02": "stateful property testing with an invariant probe after every operation",
    "C03": "stateful property testing with an instrumented element registry (lifetime oracle)",
    "C04": "stateful property testing with an instrumented allocator ledger and allocate counters",
    "C05": "property-based fault injection: exhaustive single-fault enumeration per generated case, snapshot oracle",
    "C06": "property-based fault injection: exhaustive single and paired faults per generated case, validity oracle",
    "C07": "stateful model-based property testing over allocator propagation configurations",
    "C08": "generated-program differential: compile-time (constexpr) evaluation vs run-time execution under two compilers",
    "C09": "stateful property testing with address/event oracles for buffer stealing",
    "C10": "stateful property testing with capacity/data stability and per-address event oracles",
    "C11": "metamorphic property testing (aliasing call == copy-then-call)",
    "C12": "exhaustive small-domain enumeration (8-bit size_type) plus boundary-biased generated cases, model arithmetic in wide integers as oracle",
    "C13": "differential property testing (trivially copyable twin vs non-trivial type), trace comparison",
    "C14": "stateful property testing with a geometric-growth oracle",
    "C15": "property testing with instrumented single-pass / checked iterators",
    "C17": "differential testing across language standards / compilers on a generated program corpus (trace digest comparison)",
    "C18": "exhaustive configuration-grid enumeration of noexcept/trait values against independently coded conditions, plus property-based fault injection with a terminate oracle",
    "C20": "generated-state differential between the debugger visualisers (run under gdb) and the program's own dump",
    "C19": "exhaustive configuration-grid enumeration with an independent size/alignment oracle",
    "C16": "exhaustive small-domain differential testing against std::vector plus rapidcheck-generated contents, cross-build table comparison",
}

ENGINES = [
    {"name": "hist", "path": "harness/hist_main.cpp + harness/interp*.{hpp,inc}", "serves_properties": ["C01", "C02", "C03", "C04", "C07", "C09", "C10", "C11", "C13", "C14", "C15"],
     "kind_free_text": "rapidcheck-generated operation programs interpreted against small_vector and a std::vector model, with probes"},
    {"name": "lim", "path": "harness/lim_main.cpp", "serves_properties": ["C12"], "kind_free_text": "narrow size_type / small max_size() allocators, exhaustive and boundary-biased enumeration"},
    {"name": "cmp", "path": "harness/cmp_main.cpp", "serves_properties": ["C16"], "kind_free_text": "comparison / non-member differential against std::vector, 4 toolchain builds"},
    {"name": "grid", "path": "vlib/grid.py (generates translation units)", "serves_properties": ["C18", "C19"], "kind_free_text": "generated TUs tabulating compile-time facts over configuration grids, oracle in Python"},
    {"name": "conv", "path": "harness/conv_main.cpp, harness/archetypes.hpp, vlib/conv.py", "serves_properties": ["C01", "C13"], "kind_free_text": "converting-input differential against static_cast / std::vector and archetype compile probes"},
    {"name": "cx", "path": "harness/cx_interp.hpp, harness/cx_emit.cpp, vlib/cxeng.py", "serves_properties": ["C08"], "kind_free_text": "constexpr interpreter; generated TUs compiled by g++ and clang++, compile-time vs run-time digests"},
    {"name": "xstd", "path": "harness/xstd_main.cpp, vlib/xstd.py", "serves_properties": ["C17"], "kind_free_text": "the interpreter built under every standard/compiler; corpus digests compared"},
    {"name": "gdbpp", "path": "harness/gdb_debuggee.cpp, harness/gdb_check.py, vlib/gdbpp.py", "serves_properties": ["C20"], "kind_free_text": "debuggee + gdb batch script using the shipped pretty-printer and natvis paths"},
    {"name": "fault", "path": "harness/hist_main.cpp (fault mode)", "serves_properties": ["C05", "C06"],
     "kind_free_text": "prefix + operation under test, every fault point enumerated"},
]


def main():
    from . import registry
    claimed = registry.claimed()
    na = registry.not_claimed()
    with open(os.path.join(C.VERIF, "MANIFEST.json"), "w") as f:
        json.dump(manifest(claimed, na), f, indent=1)
        f.write("\n")


if __name__ == "__main__":
    main()
