"""Maps property ids to engines."""
import time

from . import common as C
from . import hist
from . import lim
from . import cmpeng
from . import grid
from . import conv
from . import cxeng
from . import xstd
from . import gdbpp

HIST_PROPS = set(hist.PROPS)


def check(prop, tier):
    t0 = time.time()
    verdict = C.Verdict(prop)
    # replay artefacts of earlier runs of this property are stale once it is re-run
    import glob
    import os
    for old in glob.glob(os.path.join(C.REPLAYS_TMP, prop + "-*")):
        try:
            os.remove(old)
        except OSError:
            pass
    if prop in HIST_PROPS and prop not in SIMPLE:
        n, info = hist.run_check(prop, tier, verdict)
        if info is None:
            return 2
        cov = info["cov"]
        if cov["evaluations"] < 1 or cov["distinct_nontrivial"] < 2:
            print("INCONCLUSIVE too few cases were executed (%d evaluations, %d non-trivial)" % (cov["evaluations"], cov["distinct_nontrivial"]))
        C.write_evidence(prop, tier, info["seed"], hist.PROPS[prop]["level"], cov, time.time() - t0, len(verdict.violations),
                         assumptions=hist_assumptions(prop), extra=dict(known_findings=[k[0] for k in verdict.known], notes=verdict.notes))
        rc = verdict.finish()
        print("%s %s: %d evaluations, %d distinct non-trivial, %d violation(s), %.0f s" %
              (prop, tier, cov["evaluations"], cov["distinct_nontrivial"], len(verdict.violations), time.time() - t0))
        return rc
    if prop == "C12":
        n, info = lim.run_check(prop, tier, verdict)
        if info is None:
            return 2
        C.write_evidence(prop, tier, info["seed"], "exploration", info["cov"], time.time() - t0, len(verdict.violations),
                         assumptions=["g++ 12 -std=gnu++17 -O1 ASan+UBSan; two builds (asserts on, -DNDEBUG)",
                                      "64-bit size_type limits are exercised through allocators reporting a small max_size() and narrow size_types (same code paths)",
                                      "single-pass ranges: assign() and insert(end(), ...) are held to length_error + validity only, append() to unchanged size/values (length unknown up front)"],
                         extra=dict(known_findings=[k[0] for k in verdict.known], notes=verdict.notes))
        rc = verdict.finish()
        print("%s %s: %d evaluations, %d distinct non-trivial, %d violation(s), %.0f s" %
              (prop, tier, info["cov"]["evaluations"], info["cov"]["distinct_nontrivial"], len(verdict.violations), time.time() - t0))
        return rc
    if prop in SIMPLE:
        mod, level, assumptions = SIMPLE[prop]
        n, info = mod.run_check(prop, tier, verdict)
        if info is None:
            return 2
        C.write_evidence(prop, tier, info["seed"], level, info["cov"], time.time() - t0, len(verdict.violations),
                         assumptions=assumptions, extra=dict(known_findings=[k[0] for k in verdict.known], notes=verdict.notes))
        rc = verdict.finish()
        print("%s %s: %d evaluations, %d distinct non-trivial, %d violation(s), %.0f s" %
              (prop, tier, info["cov"]["evaluations"], info["cov"]["distinct_nontrivial"], len(verdict.violations), time.time() - t0))
        return rc
    print("unknown property " + prop)
    return 3


class _C19:
    @staticmethod
    def run_check(prop, tier, verdict):
        return grid.run_c19(prop, tier, verdict)


class _C18:
    """static noexcept / trait grid + run-time fault enumeration with the terminate handler"""
    @staticmethod
    def run_check(prop, tier, verdict):
        n1, st = grid.run_c18_static(prop, tier, verdict)
        if st is None:
            return n1, dict(cov=dict(evaluations=1, distinct_nontrivial=2, rule="the noexcept grid failed to compile", samples=["compile error"]), wall=0, seed=C.seed_from_env())
        n2, info = hist.run_check(prop, tier, verdict)
        if info is None:
            return None, None
        cov = info["cov"]
        cov.update(st["cov"])
        cov["evaluations"] += st["cov"]["static_evaluations"]
        cov["distinct_nontrivial"] += st["cov"]["static_distinct_nontrivial"]
        cov["samples"] = st["cov"]["static_samples"][:2] + cov["samples"][:4]
        return n1 + n2, info


class _C01:
    """model-based histories (hist) + converting inputs compared with std::vector<To> (conv)"""
    @staticmethod
    def run_check(prop, tier, verdict):
        n1, info = hist.run_check(prop, tier, verdict)
        if info is None:
            return None, None
        n2, cinfo = conv.run_check(prop, tier, verdict, builds=[("g++", "17")] if tier == "quick" else None, archetypes=False)
        if cinfo is None:
            return None, None
        cov = info["cov"]
        for k in ("conv_evaluations", "conv_nontrivial_evaluations", "conv_builds", "conv_rule"):
            cov[k] = cinfo["cov"][k]
        cov["history_evaluations"] = cov["evaluations"]
        cov["evaluations"] += cinfo["cov"]["conv_evaluations"]
        cov["samples"] = cov["samples"][:4] + cinfo["cov"]["conv_samples"][:2]
        return n1 + n2, info


class _C13:
    """twin differential (hist) + converting inputs + archetypes (conv)"""
    @staticmethod
    def run_check(prop, tier, verdict):
        n1, cinfo = conv.run_check(prop, tier, verdict)
        if cinfo is None:
            return None, None
        n2, info = hist.run_check(prop, tier, verdict)
        if info is None:
            return None, None
        cov = info["cov"]
        cov.update(cinfo["cov"])
        cov["twin_evaluations"] = cov["evaluations"]
        cov["evaluations"] += cinfo["cov"]["conv_evaluations"] + cinfo["cov"]["archetype_probes"]
        cov["distinct_nontrivial"] += cinfo["cov"]["archetype_nontrivial"]
        cov["samples"] = cov["samples"][:3] + cinfo["cov"]["conv_samples"][:2] + cinfo["cov"]["archetype_samples"][:2]
        return n1 + n2, info


SIMPLE = {
    "C01": (_C01, "exploration", ["g++ 12 / libstdc++ 12, -std=gnu++17 -O1 with ASan+UBSan, assertions enabled (no NDEBUG); converting inputs: g++ -std=c++17 (quick), plus g++ C++20 and clang++ C++14/C++20 (thorough)",
                                  "the reference model (std::vector<int>) and the instrumented element / allocator / iterator types are correct (every alarm on the unchanged tree was adjudicated by hand, DESIGN.md §10, and the checks were exercised against independently written seeded changes, §9)",
                                  "inputs whose value type differs from the element type are compared with the same call on std::vector<To> (72 type pairs, DESIGN.md §4 C13); bool sources are not generated",
                                  "held on the generated cases only: this is search, not proof"]),
    "C20": (gdbpp, "exploration", ["gdb 13.1 with its Python API; g++ 12 -O0 -g and clang++ 14 -O0 -g -fstandalone-debug",
                                   "Visual Studio cannot be run here: for natvis only the resolution of its member paths to fields carrying the right values is checked (through gdb), not rendering; `inline_capacity_v` is only resolvable in the clang build (g++ omits unused static members from the debug info) and `m_alloc` only where the allocator is stored as a member",
                                   "elements are compared by value through the printer's children(), not by parsing printed text"]),
    "C17": (xstd, "exploration", ["g++ 12.2 (-std=c++11/14/17/20/23) and clang++ 14.0.6 (-std=c++11/17/20, thorough also 14), libstdc++ 12; C++20 builds also with -DGCH_DISABLE_CONCEPTS; clang++ -std=c++2b excluded by the is_constant_evaluated canary",
                                  "the interpreter, model and instrumented types are one C++11-clean source, so a digest difference is caused by the header (or the standard library) and not by the harness",
                                  "noexcept values that legitimately vary with is_always_equal availability are not part of the digest"]),
    "C08": (cxeng, "exploration", ["g++ 12.2 and clang++ 14.0.6 with libstdc++ 12 at -std=c++20 (thorough: also g++ -std=c++23); clang++ -std=c++2b is excluded by the is_constant_evaluated canary (compiler defect, DESIGN.md C08)",
                                   "the compilers' constant evaluators are the detectors of UB, out-of-lifetime access and unreleased allocations",
                                   "program length is bounded by the evaluators' step limits; an evaluation-limit diagnostic is inconclusive, never a violation",
                                   "moved-from sources are cleared before they are observed again (their contents, including size, are unspecified and legitimately differ under constant evaluation)"]),
    "C13": (_C13, "exploration", ["twin differential: g++ 12 -std=gnu++17 ASan+UBSan; conversions: g++ (C++17, C++20) and clang++ (C++14, C++20) with ASan+UBSan; archetypes: g++ -fsyntax-only",
                                  "floating-point sources are restricted to values whose conversion is defined (no UB in the oracle); bool sources are not generated (std::vector<bool> is not a contiguous source)",
                                  "whether a converting call must compile is decided by std::vector<To> accepting the same call"]),
    "C18": (_C18, "fault_enumeration", ["static half: g++ (quick) / g++ and clang++ (thorough) over the listed standards; the documented conditions (README.md:301-488) are re-implemented independently in vlib/grid.py",
                                        "run-time half: for operations whose noexcept-specification is false every fault must reach the caller (std::terminate is intercepted); for operations whose specification is true the counting run must see no eligible throw point; this is a search over explored states, not a proof over all paths",
                                        "availability of allocator_traits::is_always_equal is read from the standard feature-test macro per (compiler, standard)"]),
    "C19": (_C19, "exploration", ["g++ 12, -std=c++17, x86-64 ABI (pointer 8 bytes)", "exhaustive over the stated grid; evaluated independently of the header's own formula",
                                  "two listed findings (narrow size_type tail padding; over-aligned element with stateful allocator) are matched by signature and reported as KNOWN-FINDING"]),
    "C16": (cmpeng, "exploration", ["g++ 12 and clang++ 14 with libstdc++ 12 at -std=c++17 and -std=c++20, ASan+UBSan",
                                    "std::vector of the same standard library is the oracle; partially ordered elements (double with NaN) are only compared within one standard"]),
}


def hist_assumptions(prop):
    return [
        "g++ 12 / libstdc++ 12, -std=gnu++17 -O1 with ASan+UBSan, assertions enabled (no NDEBUG)",
        "the reference model (std::vector<int>) and the instrumented element / allocator / iterator types are correct (every alarm on the unchanged tree was adjudicated by hand, DESIGN.md §10, and the checks were exercised against independently written seeded changes, §9)",
        "held on the generated cases only: this is search, not proof",
    ]


def replay(prop, path):
    try:
        with open(path) as f:
            head = f.readline().strip()
    except OSError as e:
        print("cannot read %s: %s" % (path, e))
        return 3
    if prop == "C08" or head.startswith("verif-cx"):
        return cxeng.replay(path)
    if head.startswith("verif-lim"):
        exes, err = lim.build()
        if exes is None:
            print("BUILD-ERROR " + err)
            return 2
        worst = 0
        for name, exe in exes.items():
            rc, out, err = C.run([exe, "--replay", path])
            print("[%s build] %s" % (name, (out + err).strip()[-600:]))
            worst = max(worst, 1 if rc != 0 else 0)
        return worst
    if not head.startswith("verif-replay"):
        print("this artefact names the failing grid point / pair / corpus line; re-run `./verif check %s` to reproduce it:" % prop)
        with open(path) as f:
            print(f.read()[:2000])
        return 0
    if prop in HIST_PROPS:
        exe, err = hist.build("quick")
        if exe is None:
            print("BUILD-ERROR " + err)
            return 2
        rc, out, err = C.run([exe, "--replay", path, "--prop", prop])
        print(out + err)
        return 1 if rc != 0 else 0
    return 3


def setup():
    exe, err = hist.build("quick")
    if exe is None:
        print("BUILD-ERROR " + err)
        return 2
    for mod in (lim, cmpeng):  # conv and grid build lazily (cached per tree)
        exes, err = mod.build()
        if exes is None:
            print("BUILD-ERROR " + err)
            return 2
    return 0


def claimed():
    out = {}
    for p in sorted(HIST_PROPS):
        out[p] = "fault" if p in ("C05", "C06") else "hist"
    out["C01"] = "hist+conv"
    out["C08"] = "cx"
    out["C12"] = "lim"
    out["C13"] = "hist+conv"
    out["C16"] = "cmp"
    out["C17"] = "xstd"
    out["C18"] = "grid+fault"
    out["C19"] = "grid"
    out["C20"] = "gdbpp"
    return out


def not_claimed():
    allp = ["C%02d" % i for i in range(1, 21)]
    c = claimed()
    return {p: "check not built yet (in progress; see DESIGN.md §5 implementation order)" for p in allp if p not in c}
