"""Engine `lim` (C12): max_size() behaviour with narrow size_types."""
import json
import os
import shutil
import time

from . import common as C

CXX = os.environ.get("VERIF_CXX", "g++")
U8 = ["u8_b1_n0", "u8_b1_n4", "u8_b2_n4", "u8_b4_n16", "u8_b8_n0", "u8_b24_n4", "u8_nt_n4"]
WIDE = ["u16_b1_n4", "u16_b8_n0", "u16_nt_n16", "u32_b4_n4", "m1000_b4_n4", "m1000_nt_n0", "m1000_b24_n16"]

RULE = ("cases = (configuration, operation, size before the call, count / range length / requested capacity, position). "
        "8-bit size_type: exhaustive over every size 0..max_size(), every operation, every count 0..255 (count-taking overloads) or "
        "range length 0..300 (range overloads, via counting iterators), positions begin/middle/end. Wider size_types and small allocator "
        "max_size(): boundary grid (max-size-1..max+2, numeric max +-2, 2*max, ...) plus rapidcheck-generated boundary-biased cases. "
        "Both an assert-enabled and an -DNDEBUG build are run. Non-trivial = resulting size / requested capacity within +-1 of max_size() "
        "or a range length beyond the numeric maximum of size_type; distinct by (configuration, build, op, size, count, position).")


def build():
    key = C.sha_files([C.HEADER] + [os.path.join(C.HARNESS, n) for n in ("core.hpp", "elem.hpp", "alloc.hpp", "lim_main.cpp")], CXX + "lim")
    with C.BuildDir("lim", key) as bd:
        exes = {"dbg": bd.file("lim"), "ndebug": bd.file("lim_nd")}
        if bd.done("lim") and all(os.path.exists(e) for e in exes.values()):
            os.utime(bd.path)
            return exes, None
        t0 = time.time()
        src = os.path.join(C.HARNESS, "lim_main.cpp")
        base = [CXX, "-std=gnu++17"] + C.SAN_FLAGS + ["-I", C.HARNESS, "-I", C.INCLUDE, src, "-lrapidcheck"]
        bad = C.compile_many([(base + ["-o", exes["dbg"]], "lim"), (base + ["-DNDEBUG", "-o", exes["ndebug"]], "lim_nd")])
        if bad:
            return None, "harness failed to compile against the tree:\n" + "\n".join("[%s]\n%s" % (b[0], b[2][-3000:]) for b in bad)
        bd.mark("lim")
        C.log("built lim in %.0f s" % (time.time() - t0))
    C.prune_builds("lim")
    return exes, None


def replay_fails(exe, path, times=3):
    n, last = 0, ""
    for _ in range(times):
        rc, out, err = C.run([exe, "--replay", path], timeout=600)
        if rc != 0:
            n += 1
            last = (out + err)[-1500:]
    return n == times, last


def run_check(prop, tier, verdict):
    seed = C.seed_from_env()
    t0 = time.time()
    exes, err = build()
    if exes is None:
        print("BUILD-ERROR " + err)
        return 2, None
    outdir = os.path.join(os.path.dirname(exes["dbg"]), "run-%d" % os.getpid())
    os.makedirs(outdir, exist_ok=True)
    os.makedirs(C.REPLAYS_TMP, exist_ok=True)
    jobs = []
    nsh = 4
    exh_cfgs = ["u8_b8_n0", "u8_b24_n4"] if tier == "quick" else U8
    for build_name, exe in exes.items():
        for cfg in exh_cfgs:
            for sh in range(nsh):
                jobs.append(dict(exe=exe, build=build_name, cfg=cfg, mode="exh", args=["--shard", str(sh), "--nshards", str(nsh)]))
        for cfg in U8 + WIDE:
            jobs.append(dict(exe=exe, build=build_name, cfg=cfg, mode="grid", args=[]))
        for cfg in WIDE + U8[:3]:
            nseeds = 1 if tier == "quick" else 6
            for k in range(nseeds):
                jobs.append(dict(exe=exe, build=build_name, cfg=cfg, mode="rand",
                                 args=["--seed", str(seed * 1000 + len(jobs) + 1), "--cases",
                                       str((20000 if tier == "quick" else 150000) // (12 if cfg == "u16_nt_n16" else 1))]))   # 16 k tracked elements per case: fewer cases
    for i, j in enumerate(jobs):
        tag = "%s-%s-%s-%d" % (j["build"], j["cfg"], j["mode"], i)
        j.update(tag=tag, stats=os.path.join(outdir, tag + ".json"), replay=os.path.join(outdir, tag + ".replay"),
                 crash=os.path.join(outdir, tag + ".crash"))

    def one(j):
        return C.run([j["exe"], "--cfg", j["cfg"], "--mode", j["mode"], "--out", j["stats"], "--replay-out", j["replay"],
                      "--crash-out", j["crash"]] + j["args"], timeout=7200)

    results = C.parallel(jobs, one)
    tot = dict(cases=0, skipped=0, length_errors=0, successes=0)
    fps = set()
    per_op = {}
    samples = []
    nviol = 0
    exhaustive_cfgs = set()
    died = 0
    for j, (rc, out, err) in zip(jobs, results):
        st = None
        try:
            with open(j["stats"]) as f:
                st = json.load(f)
        except (OSError, ValueError):
            pass
        if st is None or not st.get("end"):
            died += 1
            if os.path.exists(j["crash"]):
                dest = os.path.join(C.REPLAYS_TMP, "%s-%s-%d-crash.replay" % (prop, j["tag"], seed))
                shutil.copyfile(j["crash"], dest)
                bad, last = replay_fails(j["exe"], dest)
                with open(dest) as f:
                    txt = f.read()
                opn = txt.split("op=")[1].split()[0] if "op=" in txt else ""
                facts = dict(clause="crash", op=opn, cfg=j["cfg"], build=j["build"])
                if bad:
                    k = C.match_known(prop, facts)
                    if k:
                        verdict.known_finding(k["id"], k["what"])
                    else:
                        first = [l for l in last.splitlines() if "ERROR" in l or "runtime error" in l or "TERMINATE" in l or "VERIF-SIGNAL" in l or "Assertion" in l]
                        verdict.violation(dest, "cfg=%s build=%s crash while executing %s: %s" % (j["cfg"], j["build"], opn, first[0] if first else ""))
                        nviol += 1
            else:
                verdict.notes.append("worker %s died (status %s) without a case file: %s" % (j["tag"], rc, (out + err)[-500:]))
                print("INCONCLUSIVE worker %s died without leaving a case" % j["tag"])
            continue
        for k in tot:
            tot[k] += st.get(k, 0)
        for k, v in st.get("per_op", {}).items():
            per_op[k] = per_op.get(k, 0) + v
        fps.update("%s/%s/%d" % (j["cfg"], j["build"], x) for x in st.get("nontrivial", []))
        if st.get("exhaustive"):
            exhaustive_cfgs.add(j["cfg"])
        if len(samples) < 6:
            samples += ["build=%s %s" % (j["build"], s) for s in st.get("samples", [])[:1]]
        fl = st.get("failure")
        if fl:
            dest = os.path.join(C.REPLAYS_TMP, "%s-%s-%d.replay" % (prop, j["tag"], seed))
            shutil.copyfile(j["replay"], dest)
            bad, last = replay_fails(j["exe"], dest)
            facts = dict(clause=fl["clause"], op=fl["op"], cfg=j["cfg"], build=j["build"])
            text = "cfg=%s build=%s clause=%s %s" % (j["cfg"], j["build"], fl["clause"], fl["detail"])
            if not bad:
                verdict.notes.append("unconfirmed: " + text)
                continue
            k = C.match_known(prop, facts)
            if k:
                verdict.known_finding(k["id"], k["what"])
            else:
                verdict.violation(dest, text)
                nviol += 1
    # regression replays (fixed defects)
    rdir = os.path.join(C.VERIF, "replays", "regress")
    nreg = 0
    for name in sorted(os.listdir(rdir)) if os.path.isdir(rdir) else []:
        if name.startswith(prop + "-") and name.endswith(".limreplay"):
            path = os.path.join(rdir, name)
            exe = exes["ndebug"] if "ndebug" in name else exes["dbg"]
            nreg += 1
            bad, last = replay_fails(exe, path)
            if bad:
                verdict.violation(path, "regression replay %s fails again: %s" % (name, last.strip().splitlines()[-1] if last.strip() else ""))
                nviol += 1
    if not samples:
        samples = ["verif-lim 1;cfg u8_b1_n4;case op=ctor_fwd size=0 k=128 pos=2"]
    cov = dict(evaluations=int(tot["cases"] - tot["skipped"]), distinct_nontrivial=len(fps), rule=RULE, samples=samples,
               exhaustive=False, exhaustive_part="8-bit size_type configurations %s were enumerated completely (both builds)" % sorted(exhaustive_cfgs),
               cases_enumerated=int(tot["cases"]), cases_skipped_unexpressible=int(tot["skipped"]),
               length_error_outcomes=int(tot["length_errors"]), success_outcomes=int(tot["successes"]), per_operation=per_op,
               builds=["assertions enabled", "-DNDEBUG"], configurations=U8 + WIDE, workers=len(jobs), workers_died=died,
               regression_replays_run=nreg)
    shutil.rmtree(outdir, ignore_errors=True)
    return nviol, dict(cov=cov, wall=time.time() - t0, seed=seed)
