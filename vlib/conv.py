"""Engine `conv` (C13 parts 2 and 3): converting inputs and minimal-requirement archetypes."""
import json
import os
import shutil
import time

from . import common as C

BUILDS = [("g++", "17"), ("g++", "20"), ("clang++", "14"), ("clang++", "20")]
SRC = os.path.join(C.HARNESS, "conv_main.cpp")
ARCH = os.path.join(C.HARNESS, "archetypes.hpp")
NPAIRS = 72
NPARTS = 8

ARCHETYPES = ["A1", "A2", "A3", "A4", "A5", "A6"]
ARCH_OPS = [
    "V<T> v (5);",
    "V<T> v; v.resize (3);",
    "V<T> v; T x (1); v.push_back (x);",
    "V<T> v; v.push_back (T (1));",
    "V<T> v; v.emplace_back (1);",
    "V<T> v; v.emplace_back ();",
    "T x (1); V<T> v (3, x);",
    "T a[2] = { T (1), T (2) }; V<T> v (a, a + 2);",
    "T a[2] = { T (1), T (2) }; V<T> v; v.assign (a, a + 2);",
    "T a[2] = { T (1), T (2) }; V<T> v; v.insert (v.begin (), a, a + 2);",
    "T x (1); V<T> v; v.insert (v.begin (), x);",
    "T x (1); V<T> v; v.insert (v.begin (), 2, x);",
    "T x (1); V<T> v; v.assign (2, x);",
    "T x (1); V<T> v; v.resize (3, x);",
    "V<T> v; v.reserve (10);",
    "V<T> v; v.emplace_back (1); v.pop_back (); v.clear ();",
    "V<T> v; v.emplace_back (1); v.erase (v.begin ());",
    "V<T> v; v.emplace_back (1); v.shrink_to_fit ();",
    "V<T> v; v.emplace_back (1); V<T> w (std::move (v));",
    "V<T> v; v.emplace_back (1); V<T> w (v);",
    "V<T> v; v.emplace_back (1); V<T> w; w = v;",
    "V<T> v; v.emplace_back (1); V<T> w; w = std::move (v);",
    "V<T> v, w; v.swap (w);",
]


def build(builds=None):
    """Builds (or finds in the cache) the conversion harness for the given (compiler, standard) groups.
    Each group is marked done separately, so C01 (one group) and C13 (all groups) share one cache."""
    builds = list(builds or BUILDS)
    key = C.sha_files([C.HEADER, SRC], "conv")
    with C.BuildDir("conv", key) as bd:
        exes = {"%s-c++%s/part%d" % (b[0], b[1], p): bd.file("conv_%s_%s_p%d" % (b[0], b[1], p)) for b in builds for p in range(NPARTS)}
        errs = {}
        os.utime(bd.path)
        todo = []
        for cc, st in builds:
            if bd.done("conv") or bd.done("conv-%s-%s" % (cc, st)):
                try:
                    with open(bd.file("errors.json" if bd.done("conv") else "errors-%s-%s.json" % (cc, st))) as f:
                        errs.update(json.load(f))
                except (OSError, ValueError):
                    pass
            else:
                todo.append((cc, st))
        units = []
        flags = [f for f in C.SAN_FLAGS if f != "-g"]
        for cc, st in todo:
            for p in range(NPARTS):
                name = "%s-c++%s/part%d" % (cc, st, p)
                units.append(([cc, "-std=c++" + st, "-w"] + flags + ["-DCONV_SUBJECT_GCH", "-DCONV_PART=%d" % p, "-I", C.INCLUDE, SRC, "-lrapidcheck", "-o", exes[name]], name))
        if units:
            bad = C.compile_many(units)
            for cc, st in todo:
                mine = {}
                for name, rc, err in bad:
                    if name.startswith("%s-c++%s/" % (cc, st)):
                        mine[name] = err[-6000:]
                errs.update(mine)
                with open(bd.file("errors-%s-%s.json" % (cc, st)), "w") as f:
                    json.dump(mine, f)
                if not mine:
                    bd.mark("conv-%s-%s" % (cc, st))      # failures (which may be time-outs on a loaded machine) are never cached
    C.prune_builds("conv")
    return bd.path, exes, errs


def probe_pairs(bdpath, cc, st):
    """Per-pair compile probes: a pair must compile with small_vector iff it does with std::vector."""
    def one(job):
        k, subj = job
        rc, out, err = C.run([cc, "-std=c++" + st, "-w", "-fsyntax-only", "-DCONV_NO_RAPIDCHECK", "-DCONV_ONLY_PAIR=%d" % k, "-DCONV_PART=%d" % (k // 9),
                              "-DCONV_SUBJECT_" + subj, "-I", C.INCLUDE, SRC], timeout=600)
        return rc == 0, err[-1500:]
    jobs = [(k, s) for k in range(NPAIRS) for s in ("GCH", "STD")]
    res = C.parallel(jobs, one)
    out = {}
    for (k, s), (ok, err) in zip(jobs, res):
        out.setdefault(k, {})[s] = (ok, err)
    return out


def run_archetypes(verdict, prop, tier):
    """Returns (violations, evaluations, nontrivial, samples)."""
    tmp = os.path.join(C.BUILD_ROOT, "arch-%d" % os.getpid())
    os.makedirs(tmp, exist_ok=True)
    stds = ["17"] if tier == "quick" else ["14", "17", "20"]
    jobs = []
    for st in stds:
        for a in ARCHETYPES:
            for i, op in enumerate(ARCH_OPS):
                for triv in (False, True):
                    jobs.append((st, a, i, triv))

    def one(j):
        st, a, i, triv = j
        src = os.path.join(tmp, "p_%s_%s_%d_%d.cpp" % (st, a, i, int(triv)))
        with open(src, "w") as f:
            f.write('#include "archetypes.hpp"\ntypedef %s T;\nvoid f () { %s }\n' % (a, ARCH_OPS[i]))
        rc, out, err = C.run(["g++", "-std=c++" + st, "-fsyntax-only", "-I", C.INCLUDE, "-I", C.HARNESS] + (["-DTRIVIAL"] if triv else []) + [src], timeout=300)
        return rc == 0, err[-1200:]

    res = C.parallel(jobs, one)
    table = {}
    for j, (ok, err) in zip(jobs, res):
        table[j] = (ok, err)
    nviol = 0
    nontriv = 0
    samples = []
    for st in stds:
        for a in ARCHETYPES:
            for i, op in enumerate(ARCH_OPS):
                g_ok = table[(st, a, i, False)][0]
                t_ok, t_err = table[(st, a, i, True)]
                if g_ok:
                    nontriv += 1
                    if len(samples) < 3 and (i + len(a)) % 7 == 0:
                        samples.append("archetype %s, -std=c++%s: `%s` compiles with the non-trivial twin -> must compile with the trivially copyable one (it %s)" % (a, st, op, "does" if t_ok else "DOES NOT"))
                if g_ok and not t_ok:
                    facts = dict(clause="archetype", archetype=a, op=op, std=st)
                    k = C.match_known(prop, facts)
                    if k:
                        verdict.known_finding(k["id"], k["what"])
                        continue
                    dest = os.path.join(C.REPLAYS_TMP, "%s-archetype-%s-%d-c++%s.cpp" % (prop, a, i, st))
                    os.makedirs(C.REPLAYS_TMP, exist_ok=True)
                    with open(dest, "w") as f:
                        f.write('// g++ -std=c++%s -fsyntax-only -DTRIVIAL -I /repo/source/include -I /verif/harness <this file>\n// compiles without -DTRIVIAL, fails with it:\n// %s\n#include "archetypes.hpp"\ntypedef %s T;\nvoid f () { %s }\n'
                                % (st, (t_err.strip().splitlines() or [""])[0][:300], a, op))
                    verdict.violation(dest, "archetype %s (-std=c++%s): `%s` compiles for the non-trivial twin but not for the trivially copyable one" % (a, st, op))
                    nviol += 1
    shutil.rmtree(tmp, ignore_errors=True)
    return nviol, len(jobs), nontriv, samples


def run_check(prop, tier, verdict, builds=None, archetypes=True):
    seed = C.seed_from_env()
    t0 = time.time()
    bdpath, exes, errs = build(builds)
    os.makedirs(C.REPLAYS_TMP, exist_ok=True)
    nviol = 0
    evals = nontriv = 0
    samples = []
    per_build = {}
    # builds that failed to compile: localise with per-pair probes (small_vector vs std::vector)
    probed = set()
    for name, err in errs.items():
        cc, st = name.split("/")[0].split("-c++")
        if (cc, st) in probed:
            continue
        probed.add((cc, st))
        name = "%s-c++%s" % (cc, st)
        probes = probe_pairs(bdpath, cc, st)
        culprits = [k for k, r in probes.items() if r["STD"][0] and not r["GCH"][0]]
        if not culprits:
            print("BUILD-ERROR conv harness does not compile for %s and no pair explains it:\n%s" % (name, err[-1500:]))
            return None, None
        for k in culprits[:4]:
            facts = dict(clause="conversion.compile", pair=str(k), build=name)
            kf = C.match_known(prop, facts)
            if kf:
                verdict.known_finding(kf["id"], kf["what"])
                continue
            dest = os.path.join(C.REPLAYS_TMP, "%s-conv-pair%d-%s.txt" % (prop, k, name))
            with open(dest, "w") as f:
                f.write("verif-conv 1\nbuild %s\npair %d\n# %s -std=c++%s -fsyntax-only -DCONV_NO_RAPIDCHECK -DCONV_ONLY_PAIR=%d -DCONV_SUBJECT_GCH -I /repo/source/include harness/conv_main.cpp\n%s\n"
                        % (name, k, cc, st, k, probes[k]["GCH"][1]))
            verdict.violation(dest, "build %s: conversion pair #%d compiles with std::vector<To> but not with small_vector<To>" % (name, k))
            nviol += 1
        evals += 2 * NPAIRS
    jobs = [(name, exe) for name, exe in exes.items() if name not in errs]
    outdir = os.path.join(bdpath, "run-%d" % os.getpid())
    os.makedirs(outdir, exist_ok=True)

    def one(j):
        name, exe = j
        return C.run([exe, "--out", os.path.join(outdir, name.replace("/", "_") + ".json"), "--seed", str(seed), "--cases", "12" if tier == "quick" else "150"], timeout=7200)

    results = C.parallel(jobs, one)
    for (name, exe), (rc, out, err) in zip(jobs, results):
        try:
            with open(os.path.join(outdir, name.replace("/", "_") + ".json")) as f:
                st = json.load(f)
        except (OSError, ValueError):
            st = None
        if st is None or not st.get("end"):
            dest = os.path.join(C.REPLAYS_TMP, "%s-conv-crash-%s.txt" % (prop, name.replace("/", "_")))
            with open(dest, "w") as f:
                f.write((out + err)[-5000:])
            first = [l for l in (out + err).splitlines() if "ERROR" in l or "runtime error" in l]
            verdict.violation(dest, "build %s: conversion run crashed: %s" % (name, first[0] if first else ""))
            nviol += 1
            continue
        evals += st["evaluations"]
        nontriv += st["nontrivial"]
        per_build[name] = st["evaluations"]
        if len(samples) < 4:
            samples += st.get("samples", [])[:2]
        if st.get("failure"):
            facts = dict(clause="conversion.value", what=st["failure"], build=name)
            kf = C.match_known(prop, facts)
            if kf:
                verdict.known_finding(kf["id"], kf["what"])
            else:
                dest = os.path.join(C.REPLAYS_TMP, "%s-conv-%s.txt" % (prop, name.replace("/", "_")))
                with open(dest, "w") as f:
                    f.write("verif-conv 1\nbuild %s\n%s\n" % (name, st["failure"]))
                verdict.violation(dest, "build %s: %s" % (name, st["failure"]))
                nviol += 1
    shutil.rmtree(outdir, ignore_errors=True)
    av, ae, an, asamples = run_archetypes(verdict, prop, tier) if archetypes else (0, 0, 0, [])
    nviol += av
    cov = dict(conv_evaluations=int(evals), conv_nontrivial_evaluations=int(nontriv), conv_builds=per_build, conv_samples=samples,
               archetype_probes=ae, archetype_nontrivial=an, archetype_samples=asamples,
               conv_rule=("72 (From -> To) pairs (integral pairs of equal/different width and signedness, bool targets, char kinds incl. char8_t/16_t/32_t/wchar_t, enums, "
                          "float/double <-> integers with in-range values, pointer pairs incl. Derived* -> SecondBase* with a non-zero offset (polymorphic and plain standard-layout bases, a base behind a vptr, a virtual base), void*, null) x 11 source iterator "
                          "kinds x {range ctor, assign x3 states, insert x4 states, append, emplace_back/emplace} x N in {0,4}; boundary values plus rapidcheck arbitrary values; "
                          "oracle: every stored element == static_cast<To>(source) and == the same operation on std::vector<To>; a pair that std::vector accepts must compile. "
                          "Non-trivial = a mid-sequence range insert of a non-empty converting range."),
               archetype_rule="6 minimal-requirement archetypes x 23 operations, each compiled (-fsyntax-only) with a non-trivial and a trivially copyable twin: non-trivial compiles => trivial must compile")
    return nviol, dict(cov=cov, wall=time.time() - t0, seed=seed)
