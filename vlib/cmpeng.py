"""Engine `cmp` (C16): comparisons and non-member functions vs std::vector."""
import json
import os
import shutil
import time

from . import common as C

BUILDS = [("g++", "17"), ("g++", "20"), ("clang++", "17"), ("clang++", "20")]

RULE = ("exhaustive: all pairs of contents over alphabet {0,1,2} up to length 4 (121^2 pairs; double with NaN: alphabet {0,1,NaN} up to length 3) x capacity pairs "
        "{(0,0),(0,3),(3,0),(2,2),(2,5)} x element types {int, class with only == and <, class with defaulted <=> (six operators before C++20), double}; "
        "all six operators (and <=> in C++20, category and value) against std::vector on the same contents, mutual consistency, non-member erase/erase_if/swap/accessors; "
        "rapidcheck-generated contents up to length 40 beyond that. Builds: g++ and clang++ at C++17 and C++20, verdict tables cross-checked between builds for totally ordered types. "
        "Non-trivial = one content is a proper prefix of the other, or equal length differing in the last position, or mixed capacities (counted per build).")


def build():
    src = os.path.join(C.HARNESS, "cmp_main.cpp")
    key = C.sha_files([C.HEADER, src], "cmp")
    with C.BuildDir("cmp", key) as bd:
        exes = {"%s-c++%s" % b: bd.file("cmp_%s_%s" % b) for b in BUILDS}
        if bd.done("cmp") and all(os.path.exists(e) for e in exes.values()):
            os.utime(bd.path)
            return exes, None
        units = []
        for cc, st in BUILDS:
            units.append(([cc, "-std=c++" + st] + C.SAN_FLAGS + ["-I", C.INCLUDE, src, "-lrapidcheck", "-o", exes["%s-c++%s" % (cc, st)]], "%s-%s" % (cc, st)))
        bad = C.compile_many(units)
        if bad:
            return None, "harness failed to compile against the tree:\n" + "\n".join("[%s]\n%s" % (b[0], b[2][-3000:]) for b in bad[:2])
        bd.mark("cmp")
    C.prune_builds("cmp")
    return exes, None


def run_check(prop, tier, verdict):
    seed = C.seed_from_env()
    t0 = time.time()
    exes, err = build()
    if exes is None:
        print("BUILD-ERROR " + err)
        return 2, None
    outdir = os.path.join(os.path.dirname(list(exes.values())[0]), "run-%d" % os.getpid())
    os.makedirs(outdir, exist_ok=True)
    os.makedirs(C.REPLAYS_TMP, exist_ok=True)
    jobs = []
    # rapidcheck's memory grows with the number of cases of one run (about 35 MB per 1000 cases with
    # ASan), so the thorough budget is spread over many 20000-case processes instead of a few long ones
    nseeds = 3 if tier == "quick" else 72
    for name, exe in exes.items():
        for k in range(nseeds):
            jobs.append(dict(name=name, exe=exe, k=k, stats=os.path.join(outdir, "%s-%d.json" % (name, k)),
                             replay=os.path.join(outdir, "%s-%d.replay" % (name, k))))

    def one(j):
        return C.run([j["exe"], "--out", j["stats"], "--replay-out", j["replay"], "--seed", str(seed * 100 + j["k"] + 1),
                      "--cases", "20000"], timeout=7200)

    results = C.parallel(jobs, one)
    # the deterministic part (exhaustive pair space, non-member and heterogeneous suites) is repeated by
    # every process of a build; it is counted once per build in the evidence
    det = {}
    for name, exe in exes.items():
        dst = os.path.join(outdir, "%s-det.json" % name)
        C.run([exe, "--out", dst, "--replay-out", dst + ".replay", "--seed", "1", "--cases", "0", "--mode", "exh"], timeout=7200)
        try:
            with open(dst) as f:
                d = json.load(f)
            det[name] = (d["evaluations"], d["nontrivial"])
        except (OSError, ValueError, KeyError):
            det[name] = (0, 0)
    evals = nontriv = exh = 0
    distinct = {}
    tables = {}
    samples = []
    nviol = 0
    for j, (rc, out, err) in zip(jobs, results):
        try:
            with open(j["stats"]) as f:
                st = json.load(f)
        except (OSError, ValueError):
            st = None
        if st is None or not st.get("end"):
            dest = os.path.join(C.REPLAYS_TMP, "%s-%s-crash.txt" % (prop, j["name"]))
            with open(dest, "w") as f:
                f.write((out + err)[-4000:])
            verdict.violation(dest, "cmp worker %s crashed: %s" % (j["name"], (out + err).strip().splitlines()[-1] if (out + err).strip() else ""))
            nviol += 1
            continue
        first = j["name"] not in distinct
        evals += st["evaluations"] - (0 if first else min(det[j["name"]][0], st["evaluations"]))
        nontriv += st["nontrivial"] - (0 if first else min(det[j["name"]][1], st["nontrivial"]))
        if first:
            exh += st["exhaustive_evaluations"]
        distinct[j["name"]] = st["nontrivial_exhaustive"]
        tables.setdefault(j["name"], {k: st[k] for k in ("table_int", "table_eqlt", "table_ord", "table_double")})
        if len(samples) < 5:
            samples += st.get("samples", [])[:2]
        if st.get("failure"):
            dest = os.path.join(C.REPLAYS_TMP, "%s-%s-%d.replay" % (prop, j["name"], seed))
            shutil.copyfile(j["replay"], dest)
            k = C.match_known(prop, dict(what=st["failure"]["what"], build=j["name"]))
            if k:
                verdict.known_finding(k["id"], k["what"])
            else:
                verdict.violation(dest, "build=%s %s (%s)" % (j["name"], st["failure"]["what"], st["failure"]["case"]))
                nviol += 1
    # cross-build agreement of the verdict tables (totally ordered types)
    names = sorted(tables)
    if names:
        ref = tables[names[0]]
        for n in names[1:]:
            for k in ("table_int", "table_eqlt", "table_ord"):
                if tables[n][k] != ref[k]:
                    dest = os.path.join(C.REPLAYS_TMP, "%s-table-mismatch.txt" % prop)
                    with open(dest, "w") as f:
                        json.dump(tables, f, indent=1)
                    verdict.violation(dest, "verdict table %s differs between builds %s and %s" % (k, names[0], n))
                    nviol += 1
                    break
        # within a build the three totally ordered element types must produce the same table
        for n in names:
            if len(set(tables[n][k] for k in ("table_int", "table_eqlt", "table_ord"))) != 1:
                dest = os.path.join(C.REPLAYS_TMP, "%s-table-mismatch.txt" % prop)
                with open(dest, "w") as f:
                    json.dump(tables, f, indent=1)
                verdict.violation(dest, "verdict tables of int / ==,< only / <=> element types differ in build %s" % n)
                nviol += 1
    cov = dict(evaluations=int(evals), distinct_nontrivial=int(sum(distinct.values())), nontrivial_evaluations_including_random=int(nontriv), rule=RULE,
               samples=samples or ["int N=0 M=3 [0,1] vs [0,1,2]"], exhaustive=False,
               exhaustive_part="the alphabet/length-bounded pair space is enumerated completely in every build (%d evaluations)" % exh,
               builds=names, verdict_tables=tables, workers=len(jobs))
    shutil.rmtree(outdir, ignore_errors=True)
    return nviol, dict(cov=cov, wall=time.time() - t0, seed=seed)
