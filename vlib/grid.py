"""Engine `grid`: generated translation units tabulating compile-time facts over
configuration grids; oracle formulas are evaluated independently here in Python.

  C19: default_buffer_size / sizeof / alignof over element (size, alignment) x allocator
       state x size_type (exhaustive grid).
  C18 (static half): noexcept(...) of the documented operations over element traits x N x
       allocator traits x language standards, plus iterator / nested-type facts.
"""
import json
import os
import shutil
import time

from . import common as C

CXX = os.environ.get("VERIF_CXX", "g++")

# ------------------------------------------------------------------------------------ C19
C19_PRELUDE = r'''
#include <gch/small_vector.hpp>
#include <cstdio>
#include <cstdint>
template <unsigned S, unsigned A> struct alignas (A) El { unsigned char b[S]; };
template <unsigned St> struct State { unsigned char st[St]; };
template <> struct State<0> { };
template <typename T, unsigned St, typename SizeT>
struct SA : State<St>
{
  typedef T value_type; typedef SizeT size_type;
  template <typename U> struct rebind { typedef SA<U, St, SizeT> other; };
  SA () noexcept { }
  template <typename U> SA (const SA<U, St, SizeT>&) noexcept { }
  T *allocate (size_type n) { return static_cast<T *> (::operator new (n * sizeof (T), std::align_val_t (alignof (T)))); }
  void deallocate (T *p, size_type) noexcept { ::operator delete (p, std::align_val_t (alignof (T))); }
};
template <typename T, typename U, unsigned St, typename SizeT> bool operator== (const SA<T, St, SizeT>&, const SA<U, St, SizeT>&) noexcept { return true; }
template <typename T, typename U, unsigned St, typename SizeT> bool operator!= (const SA<T, St, SizeT>&, const SA<U, St, SizeT>&) noexcept { return false; }
template <unsigned ES, unsigned EA, unsigned St, typename SizeT>
void probe (const char *szname)
{
  typedef El<ES, EA> T;
  typedef SA<T, St, SizeT> A;
  constexpr unsigned D = gch::default_buffer_size<A>::value;
  typedef gch::small_vector<T, D, A> VD;
  VD v;
  const bool aligned = (reinterpret_cast<std::uintptr_t> (v.data ()) % alignof (T)) == 0 && v.inlined ();
  std::printf ("%u %u %u %s %u %zu %zu %zu %zu %zu %zu %zu %d %u %u\n", ES, EA, St, szname, D,
               sizeof (gch::small_vector<T, 0, A>), sizeof (gch::small_vector<T, 1, A>), sizeof (VD), sizeof (gch::small_vector<T, D + 1, A>),
               alignof (VD), alignof (T), sizeof (SizeT), int (aligned),
               unsigned (gch::small_vector<T, 7, A>::inline_capacity ()), unsigned (VD::inline_capacity ()));
}
'''

SIZE_TYPES = [("u8", "std::uint8_t", 1), ("u16", "std::uint16_t", 2), ("u32", "std::uint32_t", 4), ("u64", "std::uint64_t", 8)]
STATES = [0, 1, 4, 8, 16, 24]


def c19_points():
    pts = []
    for es in range(1, 73):
        for ea in (1, 2, 4, 8, 16, 32, 64):
            if es % ea == 0:
                for st in STATES:
                    for szn, szt, szb in SIZE_TYPES:
                        pts.append((es, ea, st, szn, szt))
    return pts


def c19_expected(es, ea, st, szbytes, D, S0, S1, SD, SD1, ideal=64):
    """Independent statement of the property; returns list of violated clauses."""
    bad = []
    if S1 <= ideal:
        if SD > ideal:
            bad.append("sizeof with the default capacity is %d > %d" % (SD, ideal))
        if SD1 <= ideal:
            bad.append("not_maximal: default capacity %d but capacity %d still gives sizeof %d <= %d" % (D, D + 1, SD1, ideal))
    else:
        if D != 1:
            bad.append("not even one element fits (sizeof %d) but the default capacity is %d, not 1" % (S1, D))
    if st == 0:
        want = (8 + 2 * szbytes + 7) // 8 * 8
        if S0 != want:
            bad.append("N=0 with a stateless allocator: sizeof is %d, expected pointer + 2 size_type rounded up = %d" % (S0, want))
    return bad


def run_c19(prop, tier, verdict):
    seed = C.seed_from_env()
    t0 = time.time()
    ideals = [64] if tier == "quick" else [64, 32, 128]
    key = C.sha_files([C.HEADER, __file__], "c19" + CXX)
    pts = c19_points()
    nviol = 0
    rows_total = 0
    nontriv = set()
    samples = []
    known_hits = {}
    with C.BuildDir("grid19", key) as bd:
        for ideal in ideals:
            tag = "i%d" % ideal
            nchunks = 16
            # the header static_asserts that an empty container fits the ideal size: keep to allocator states that do
            use = [p for p in pts if ideal >= 64 or p[2] <= 4]
            chunks = [use[i::nchunks] for i in range(nchunks)]
            outs = [bd.file("c19_%s_%d.txt" % (tag, i)) for i in range(nchunks)]
            if not (bd.done("c19" + tag) and all(os.path.exists(o) for o in outs)):
                units = []
                for i, ch in enumerate(chunks):
                    src = bd.file("c19_%s_%d.cpp" % (tag, i))
                    with open(src, "w") as f:
                        f.write(C19_PRELUDE)
                        f.write("int main () {\n")
                        for es, ea, st, szn, szt in ch:
                            f.write('  probe<%d, %d, %d, %s> ("%s");\n' % (es, ea, st, szt, szn))
                        f.write("  return 0;\n}\n")
                    exe = bd.file("c19_%s_%d" % (tag, i))
                    units.append((["sh", "-c", "%s -std=c++17 -O0 -DGCH_SMALL_VECTOR_DEFAULT_SIZE=%d -I %s %s -o %s && %s > %s" %
                                   (CXX, ideal, C.INCLUDE, src, exe, exe, outs[i])], "c19-%d" % i))
                bad = C.compile_many(units)
                if bad:
                    # here failing to compile is itself an observation about the tree
                    msg = bad[0][2][-2500:]
                    dest = os.path.join(C.REPLAYS_TMP, "%s-compile-error.txt" % prop)
                    os.makedirs(C.REPLAYS_TMP, exist_ok=True)
                    with open(dest, "w") as f:
                        f.write(msg)
                    verdict.violation(dest, "the C19 grid no longer compiles against the tree: " + (msg.strip().splitlines()[-1] if msg.strip() else ""))
                    return 1, dict(cov=dict(evaluations=1, distinct_nontrivial=2, rule="compile failure", samples=[msg[-300:]]), wall=time.time() - t0, seed=seed)
                bd.mark("c19" + tag)
            for o in outs:
                with open(o) as f:
                    for line in f:
                        w = line.split()
                        if len(w) != 15:
                            continue
                        es, ea, st = int(w[0]), int(w[1]), int(w[2])
                        szn = w[3]
                        D, S0, S1, SD, SD1, AV, AT, szb, aligned, ic7, icD = [int(x) for x in w[4:]]
                        rows_total += 1
                        bad = c19_expected(es, ea, st, szb, D, S0, S1, SD, SD1, ideal)
                        if AV < AT:
                            bad.append("alignof (small_vector) %d < alignof (T) %d" % (AV, AT))
                        if not aligned:
                            bad.append("inline data () of a default-constructed container is not aligned for T or the container is not inlined")
                        if ic7 != 7 or icD != D:
                            bad.append("inline_capacity () does not report the template argument")
                        case = "ideal=%d elem_size=%d elem_align=%d alloc_state=%d size_type=%s D=%d sizeof(N=0,1,D,D+1)=%d,%d,%d,%d" % (ideal, es, ea, st, szn, D, S0, S1, SD, SD1)
                        # non-trivial: header part has tail padding (narrow size_type) or over-aligned T
                        if szb < 8 or ea > 8:
                            nontriv.add((ideal, es, ea, st, szn))
                            if len(samples) < 4 and (es * 7 + ea + st) % 97 == 3:
                                samples.append(case)
                        for b in bad:
                            facts = dict(clause=b.split(":")[0].split(" ")[0], size_type=szn, elem_align=str(ea), alloc_state=str(st), ideal=str(ideal))
                            k = C.match_known(prop, facts)
                            if k:
                                known_hits[k["id"]] = known_hits.get(k["id"], 0) + 1
                                verdict.known_finding(k["id"], k["what"])
                            else:
                                os.makedirs(C.REPLAYS_TMP, exist_ok=True)
                                dest = os.path.join(C.REPLAYS_TMP, "%s-grid-%d.txt" % (prop, nviol))
                                if nviol < 5:
                                    with open(dest, "w") as f:
                                        f.write("verif-grid C19\n" + case + "\nviolated: " + b + "\n")
                                    verdict.violation(dest, case + ": " + b)
                                nviol += 1
    C.prune_builds("grid19")
    cov = dict(evaluations=rows_total, distinct_nontrivial=len(nontriv),
               rule=("exhaustive grid: element sizes 1..72 x alignments {1..64} (size a multiple of alignment) x allocator state {0,1,4,8,16,24} bytes x "
                     "size_type {8,16,32,64 bit}; each point instantiates small_vector<T,n,A> for n in {0,1,D,D+1} and reports sizeof/alignof/D; the "
                     "oracle (largest count that fits 64 bytes, else 1; N=0 stateless = pointer + 2 size_type; alignment) is evaluated independently in Python. "
                     "Non-trivial = narrow size_type (tail padding in the header part) or over-aligned element."),
               samples=samples or ["(none sampled)"], exhaustive=True, grid_points=rows_total, ideal_sizes=ideals,
               known_finding_grid_points=known_hits)
    return nviol, dict(cov=cov, wall=time.time() - t0, seed=seed)


# ------------------------------------------------------------------------------------ C18 static
C18_PRELUDE = r'''
#include <gch/small_vector.hpp>
#include <cstdio>
#include <iterator>
#include <memory>
#include <type_traits>
#include <utility>
template <bool MC, bool MA, bool SW>
struct GE
{
  int v;
  GE ();
  GE (const GE&);
  GE& operator= (const GE&);
  GE (GE&&) noexcept (MC);
  GE& operator= (GE&&) noexcept (MA);
  ~GE ();
  friend void swap (GE&, GE&) noexcept (SW) { }
};
template <typename T, bool POCMA, bool POCS, bool AE>
struct GA
{
  typedef T value_type;
  typedef std::integral_constant<bool, POCMA> propagate_on_container_move_assignment;
  typedef std::integral_constant<bool, POCS>  propagate_on_container_swap;
  typedef std::integral_constant<bool, AE>    is_always_equal;
  template <typename U> struct rebind { typedef GA<U, POCMA, POCS, AE> other; };
  int id;
  GA () noexcept : id (0) { }
  template <typename U> GA (const GA<U, POCMA, POCS, AE>& o) noexcept : id (o.id) { }
  T *allocate (std::size_t n);
  void deallocate (T *, std::size_t) noexcept;
};
template <typename T, typename U, bool M, bool S, bool E> bool operator== (const GA<T, M, S, E>& a, const GA<U, M, S, E>& b) noexcept { return E || a.id == b.id; }
template <typename T, typename U, bool M, bool S, bool E> bool operator!= (const GA<T, M, S, E>& a, const GA<U, M, S, E>& b) noexcept { return ! (a == b); }

// like GA<T, true, true, false> but its default constructor may throw
template <typename T>
struct GT
{
  typedef T value_type;
  typedef std::true_type propagate_on_container_move_assignment;
  typedef std::true_type propagate_on_container_swap;
  int id;
  GT () noexcept (false) : id (0) { }
  template <typename U> GT (const GT<U>& o) noexcept : id (o.id) { }
  T *allocate (std::size_t n);
  void deallocate (T *, std::size_t) noexcept;
};
template <typename T, typename U> bool operator== (const GT<T>& a, const GT<U>& b) noexcept { return a.id == b.id; }
template <typename T, typename U> bool operator!= (const GT<T>& a, const GT<U>& b) noexcept { return ! (a == b); }

#define NX(EXPR) int (noexcept (EXPR))
template <typename T, unsigned N, typename A>
void row (const char *tag)
{
  typedef gch::small_vector<T, N, A> V;
  typedef gch::small_vector<T, N + 2, A> VG;   // greater inline capacity
  typedef gch::small_vector<T, (N > 0 ? N - 1 : 0), A> VL;   // smaller (only meaningful when N > 0)
  using std::swap;
  std::printf ("%s N=%u dflt=%d allocctor=%d move=%d moveG=%d moveL=%d move_alloc=%d copy=%d count=%d opmove=%d asgmove=%d asgG=%d asgL=%d swapm=%d swapadl=%d clear=%d "
               "obs=%d at=%d idx=%d front=%d push=%d reserve=%d shrink=%d resize=%d insert=%d erase=%d pop=%d\n", tag, N,
               NX (V ()), NX (V (std::declval<const A&> ())), NX (V (std::declval<V&&> ())), NX (V (std::declval<VG&&> ())), NX (V (std::declval<VL&&> ())),
               NX (V (std::declval<V&&> (), std::declval<const A&> ())), NX (V (std::declval<const V&> ())), NX (V (typename V::size_type (1))),
               NX (std::declval<V&> () = std::declval<V&&> ()), NX (std::declval<V&> ().assign (std::declval<V&&> ())),
               NX (std::declval<V&> ().assign (std::declval<VG&&> ())), NX (std::declval<V&> ().assign (std::declval<VL&&> ())),
               NX (std::declval<V&> ().swap (std::declval<V&> ())), NX (swap (std::declval<V&> (), std::declval<V&> ())), NX (std::declval<V&> ().clear ()),
               int (noexcept (std::declval<V&> ().begin ()) && noexcept (std::declval<const V&> ().begin ()) && noexcept (std::declval<V&> ().cbegin ())
                    && noexcept (std::declval<V&> ().end ()) && noexcept (std::declval<const V&> ().end ()) && noexcept (std::declval<V&> ().cend ())
                    && noexcept (std::declval<V&> ().rbegin ()) && noexcept (std::declval<const V&> ().rbegin ()) && noexcept (std::declval<V&> ().crbegin ())
                    && noexcept (std::declval<V&> ().rend ()) && noexcept (std::declval<const V&> ().rend ()) && noexcept (std::declval<V&> ().crend ())
                    && noexcept (std::declval<V&> ().data ()) && noexcept (std::declval<const V&> ().data ()) && noexcept (std::declval<const V&> ().empty ())
                    && noexcept (std::declval<const V&> ().size ()) && noexcept (std::declval<const V&> ().max_size ()) && noexcept (std::declval<const V&> ().capacity ())
                    && noexcept (std::declval<const V&> ().get_allocator ()) && noexcept (std::declval<const V&> ().inlined ())
                    && noexcept (std::declval<const V&> ().inlinable ()) && noexcept (V::inline_capacity ())),
               NX (std::declval<V&> ().at (0)), NX (std::declval<V&> ()[0]), NX (std::declval<V&> ().front ()),
               NX (std::declval<V&> ().push_back (std::declval<T&&> ())), NX (std::declval<V&> ().reserve (1)), NX (std::declval<V&> ().shrink_to_fit ()),
               NX (std::declval<V&> ().resize (1)), NX (std::declval<V&> ().insert (std::declval<V&> ().cbegin (), std::declval<T&&> ())),
               NX (std::declval<V&> ().erase (std::declval<V&> ().cbegin ())), NX (std::declval<V&> ().pop_back ()));
}

template <typename V>
void iterator_facts (const char *tag)
{
  typedef typename V::iterator I; typedef typename V::const_iterator CI;
  typedef std::iterator_traits<I> TR;
  const bool nested =
       std::is_same<typename V::value_type, typename V::allocator_type::value_type>::value
    && std::is_same<typename V::reference, typename V::value_type&>::value
    && std::is_same<typename V::const_reference, const typename V::value_type&>::value
    && std::is_same<typename V::pointer, typename std::allocator_traits<typename V::allocator_type>::pointer>::value
    && std::is_same<typename V::const_pointer, typename std::allocator_traits<typename V::allocator_type>::const_pointer>::value
    && std::is_same<typename V::reverse_iterator, std::reverse_iterator<I> >::value
    && std::is_same<typename V::const_reverse_iterator, std::reverse_iterator<CI> >::value
    && std::is_unsigned<typename V::size_type>::value && std::is_signed<typename V::difference_type>::value
    && std::is_same<typename TR::value_type, typename V::value_type>::value
    && std::is_same<typename TR::reference, typename V::reference>::value
    && std::is_same<typename TR::difference_type, typename V::difference_type>::value
    && std::is_convertible<I, CI>::value && ! std::is_convertible<CI, I>::value;
  int contiguous = -1;
#if defined (__cpp_lib_concepts) && __cpp_lib_concepts >= 202002L
  contiguous = int (std::contiguous_iterator<I> && std::contiguous_iterator<CI>);
#endif
  std::printf ("ITER %s trivially_copyable=%d random_access=%d nested=%d contiguous=%d default_constructible=%d\n", tag,
               int (std::is_trivially_copyable<I>::value && std::is_trivially_copyable<CI>::value),
               int (std::is_same<typename TR::iterator_category, std::random_access_iterator_tag>::value
                    && std::is_same<typename std::iterator_traits<CI>::iterator_category, std::random_access_iterator_tag>::value),
               int (nested), contiguous, int (std::is_default_constructible<I>::value));
}
'''


def c18_rows():
    rows = []
    for mc in (0, 1):
        for ma in (0, 1):
            for sw in (0, 1):
                for alloc in ("std", "ae", "m0s0", "m1s0", "m0s1", "m1s1", "thr"):
                    for n in (0, 3):
                        rows.append((mc, ma, sw, alloc, n))
    return rows


def c18_alloc_type(alloc, T):
    if alloc == "std":
        return "std::allocator<%s>" % T
    if alloc == "ae":
        return "GA<%s, false, false, true>" % T
    if alloc == "thr":
        return "GT<%s>" % T
    m = alloc[1] == "1"
    s = alloc[3] == "1"
    return "GA<%s, %s, %s, false>" % (T, "true" if m else "false", "true" if s else "false")


def c18_expected(mc, ma, sw, alloc, n, ae_ok):
    am = alloc == "std" or (alloc.startswith("m1")) or (alloc == "ae" and ae_ok) or alloc == "thr"
    as_ = alloc == "std" or (alloc in ("m0s1", "m1s1")) or (alloc == "ae" and ae_ok) or alloc == "thr"
    e = {}
    e["dflt"] = 0 if alloc == "thr" else 1     # noexcept (allocator_type ())
    e["allocctor"] = 1
    e["move"] = int(bool(mc) or n == 0)
    e["moveG"] = 0
    e["moveL"] = int(bool(mc)) if n > 0 else None     # N == 0: VL is the same type as V
    e["move_alloc"] = 0
    e["copy"] = 0
    e["count"] = 0
    e["opmove"] = int(am and ((ma and mc) or n == 0))
    e["asgmove"] = e["opmove"]
    e["asgG"] = 0
    e["asgL"] = int(am and bool(ma) and bool(mc)) if n > 0 else None
    e["swapm"] = int(as_ and ((mc and ma and sw) or n == 0))
    e["swapadl"] = e["swapm"]
    e["clear"] = 1
    e["obs"] = 1
    for k in ("at", "idx", "front", "push", "reserve", "shrink", "resize", "insert", "erase", "pop"):
        e[k] = 0
    return e


def run_c18_static(prop, tier, verdict):
    t0 = time.time()
    stds = [14, 17, 20] if tier == "quick" else [11, 14, 17, 20, 23]
    compilers = [CXX] if tier == "quick" else [CXX, "clang++"]
    key = C.sha_files([C.HEADER, __file__], "c18")
    rows = c18_rows()
    nviol = 0
    total = 0
    nontriv = set()
    samples = []
    os.makedirs(C.REPLAYS_TMP, exist_ok=True)
    with C.BuildDir("grid18", key) as bd:
        units = []
        outs = {}
        for cc in compilers:
            for std in stds:
                if cc == "clang++" and std == 23:
                    continue
                tag = "%s_%d" % (cc.replace("+", "p"), std)
                out = bd.file("c18_%s.txt" % tag)
                outs[(cc, std)] = out
                if bd.done("c18" + tag) and os.path.exists(out):
                    continue
                src = bd.file("c18_%s.cpp" % tag)
                with open(src, "w") as f:
                    f.write(C18_PRELUDE)
                    f.write("int main () {\n")
                    for mc, ma, sw, alloc, n in rows:
                        T = "GE<%s, %s, %s>" % tuple("true" if x else "false" for x in (mc, ma, sw))
                        f.write('  row<%s, %d, %s > ("mc=%d ma=%d sw=%d alloc=%s");\n' % (T, n, c18_alloc_type(alloc, T), mc, ma, sw, alloc))
                    f.write('#if defined (__cpp_lib_allocator_traits_is_always_equal)\n  std::printf ("AEMACRO 1\\n");\n#else\n  std::printf ("AEMACRO 0\\n");\n#endif\n')
                    f.write('  iterator_facts<gch::small_vector<int, 4> > ("int4");\n')
                    f.write('  iterator_facts<gch::small_vector<GE<true, true, true>, 0, GA<GE<true, true, true>, true, true, false> > > ("ge0");\n')
                    f.write("  return 0;\n}\n")
                exe = bd.file("c18_" + tag)
                stdflag = "-std=c++%d" % std if not (cc == "g++" and std == 23) else "-std=c++23"
                units.append((["sh", "-c", "%s %s -O0 -I %s %s -o %s 2>%s.err && %s > %s" %
                               (cc, stdflag, C.INCLUDE, src, exe, exe, exe, out)], tag))
        bad = C.compile_many(units)
        if bad:
            msg = bad[0][2][-2500:]
            try:
                with open(bd.file("c18_" + bad[0][0] + ".err")) as f:
                    msg = f.read()[-2500:]
            except OSError:
                pass
            dest = os.path.join(C.REPLAYS_TMP, "%s-compile-error.txt" % prop)
            with open(dest, "w") as f:
                f.write(msg)
            verdict.violation(dest, "the noexcept grid does not compile (%s): %s" % (bad[0][0], msg.strip().splitlines()[-1] if msg.strip() else ""))
            return 1, None
        for (cc, std), out in outs.items():
            bd.mark("c18%s_%d" % (cc.replace("+", "p"), std))
            with open(out) as f:
                lines = f.readlines()
            # whether the standard library offers allocator_traits::is_always_equal in this mode
            # (read from the standard feature-test macro, not from the header under test)
            ae_ok = any(l.startswith("AEMACRO 1") for l in lines)
            if True:
                for line in lines:
                    w = line.split()
                    if not w or w[0] == "AEMACRO":
                        continue
                    if w[0] == "ITER":
                        facts = dict(x.split("=") for x in w[2:])
                        total += 1
                        want = dict(trivially_copyable="1", random_access="1", nested="1")
                        for k, v in want.items():
                            if facts.get(k) != v:
                                dest = os.path.join(C.REPLAYS_TMP, "%s-iter-%s.txt" % (prop, k))
                                with open(dest, "w") as g:
                                    g.write("verif-grid C18\ncompiler %s std %d\n%s" % (cc, std, line))
                                verdict.violation(dest, "%s -std=c++%d: iterator fact %s is %s for %s" % (cc, std, k, facts.get(k), w[1]))
                                nviol += 1
                        if std >= 20 and facts.get("contiguous") == "0":
                            dest = os.path.join(C.REPLAYS_TMP, "%s-iter-contiguous.txt" % prop)
                            with open(dest, "w") as g:
                                g.write("verif-grid C18\ncompiler %s std %d\n%s" % (cc, std, line))
                            verdict.violation(dest, "%s -std=c++%d: iterators do not model std::contiguous_iterator" % (cc, std))
                            nviol += 1
                        continue
                    kv = dict(x.split("=") for x in w if "=" in x)
                    mc, ma, sw, alloc, n = int(kv["mc"]), int(kv["ma"]), int(kv["sw"]), kv["alloc"], int(kv["N"])
                    exp = c18_expected(mc, ma, sw, alloc, n, ae_ok)
                    for k, want in exp.items():
                        if want is None:
                            continue
                        total += 1
                        got = int(kv[k])
                        # non-trivial: the documented value is false because of exactly one factor
                        if k in ("move", "opmove", "swapm", "asgL", "moveL") and want == 0:
                            flips = 0
                            for alt in ((1 - mc, ma, sw), (mc, 1 - ma, sw), (mc, ma, 1 - sw)):
                                if c18_expected(alt[0], alt[1], alt[2], alloc, n, ae_ok)[k] == 1:
                                    flips += 1
                            if flips == 1:
                                nontriv.add((cc, std, k, mc, ma, sw, alloc, n))
                                if len(samples) < 4 and (mc + 2 * ma + 4 * sw + n) % 5 == 1:
                                    samples.append("%s -std=c++%d noexcept(%s) mc=%d ma=%d sw=%d alloc=%s N=%d -> %d" % (cc, std, k, mc, ma, sw, alloc, n, got))
                        if got != want:
                            case = "%s -std=c++%d noexcept(%s) with mc=%d ma=%d sw=%d alloc=%s N=%d is %d, documented %d" % (cc, std, k, mc, ma, sw, alloc, n, got, want)
                            kf = C.match_known(prop, dict(expr=k, alloc=alloc, std=str(std), n=str(n)))
                            if kf:
                                verdict.known_finding(kf["id"], kf["what"])
                                continue
                            if nviol < 6:
                                dest = os.path.join(C.REPLAYS_TMP, "%s-noexcept-%d.txt" % (prop, nviol))
                                with open(dest, "w") as g:
                                    g.write("verif-grid C18\n" + case + "\n")
                                verdict.violation(dest, case)
                            nviol += 1
    C.prune_builds("grid18")
    cov = dict(static_evaluations=total, static_distinct_nontrivial=len(nontriv), static_samples=samples,
               static_grid="{nothrow/throwing move ctor, move assign, swap} x N in {0,3} x source capacity {<,=,>} x allocator {std, always-equal, POCMA/POCS on/off} x standards %s x compilers %s" % (stds, compilers))
    return nviol, dict(cov=cov, wall=time.time() - t0)
