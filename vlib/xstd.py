"""Engine `xstd` (C17): one corpus, many language standards / compilers."""
import os
import shutil
import time

from . import common as C
from . import hist
from . import cxeng

BUILDS_QUICK = [("g++", "c++11", False), ("g++", "c++14", False), ("g++", "c++17", False), ("g++", "c++20", False), ("g++", "c++20", True),
                ("g++", "c++23", False), ("clang++", "c++11", False), ("clang++", "c++17", False), ("clang++", "c++20", False), ("clang++", "c++20", True)]
BUILDS_THOROUGH = BUILDS_QUICK + [("g++", "c++23", True), ("clang++", "c++14", False)]

RULE = ("a fixed corpus of rapidcheck-generated programs (the C01 generator, deterministic in VERIF_SEED) is executed by the same C++11-clean interpreter source built under "
        "every (compiler, -std, GCH_DISABLE_CONCEPTS) combination over 5 configurations; each build prints a digest of the full observation trace (values, sizes, capacities, "
        "returned positions, exception outcomes, allocate counts) per (program, configuration); all builds must agree, and a configuration must compile under all standards or none. "
        "Non-trivial = the program exercises a contiguous foreign iterator, an always-equal allocator move/swap, a comparison or an iterator dereference; distinct by (program, configuration).")

NT_FLAGS = (1 << 22) | (1 << 27) | (1 << 26) | (1 << 28)


def bname(b):
    return "%s-%s%s" % (b[0], b[1], "-noconcepts" if b[2] else "")


def run_check(prop, tier, verdict):
    seed = C.seed_from_env()
    t0 = time.time()
    builds = BUILDS_QUICK if tier == "quick" else BUILDS_THOROUGH
    srcs = [os.path.join(C.HARNESS, n) for n in ("core.hpp", "elem.hpp", "alloc.hpp", "iters.hpp", "program.hpp", "interp.hpp",
                                                  "interp_base.inc", "interp_ops1.inc", "interp_ops2.inc", "interp_run.inc", "xstd_main.cpp")]
    key = C.sha_files([C.HEADER] + srcs, "xstd")
    os.makedirs(C.REPLAYS_TMP, exist_ok=True)
    nviol = 0
    # corpus from the hist binary's generator
    hexe, err = hist.build("quick")
    if hexe is None:
        print("BUILD-ERROR " + err)
        return None, None
    with C.BuildDir("xstd", key) as bd:
        usable = []
        for b in builds:
            # the is_constant_evaluated canary only exists from C++20 on
            if b[1] in ("c++11", "c++14", "c++17") or cxeng.toolchain_ok(bd, b[0], b[1]):
                usable.append(b)
        exes = {bname(b): bd.file("xstd_" + bname(b).replace("+", "p")) for b in usable}
        errs = {}
        if not bd.done("xstd-" + tier):
            units = []
            for b in usable:
                cmd = [b[0], "-std=" + b[1], "-O1", "-w", "-I", C.HARNESS, "-I", C.INCLUDE] + (["-DGCH_DISABLE_CONCEPTS"] if b[2] else []) + \
                      [os.path.join(C.HARNESS, "xstd_main.cpp"), "-o", exes[bname(b)]]
                units.append((cmd, bname(b)))
            bad = C.compile_many(units)
            for name, rc, e in bad:
                errs[name] = e[-5000:]
                with open(bd.file("err_" + name.replace("+", "p") + ".txt"), "w") as f:
                    f.write(e[-5000:])
            if not errs:
                bd.mark("xstd-" + tier)      # failures are never cached
        else:
            for b in usable:
                p = bd.file("err_" + bname(b).replace("+", "p") + ".txt")
                if os.path.exists(p):
                    with open(p) as f:
                        errs[bname(b)] = f.read()
        # a program that compiles under one standard must compile under all
        if errs:
            okb = [bname(b) for b in usable if bname(b) not in errs]
            for name, e in sorted(errs.items()):
                first = [l for l in e.splitlines() if "error" in l][:2]
                facts = dict(clause="compile_differs", build=name)
                kf = C.match_known(prop, facts)
                if kf:
                    verdict.known_finding(kf["id"], kf["what"])
                    continue
                dest = os.path.join(C.REPLAYS_TMP, "%s-compile-%s.txt" % (prop, name.replace("+", "p")))
                with open(dest, "w") as f:
                    f.write("verif-xstd 1\nbuild %s fails to compile harness/xstd_main.cpp while %s compile it\n%s\n" % (name, okb, e))
                if okb:
                    verdict.violation(dest, "the trace program compiles with %s but not with %s: %s" % (okb[0], name, first[0] if first else ""))
                    nviol += 1
                else:
                    print("BUILD-ERROR the xstd harness compiles under no standard:\n" + e[-1500:])
                    return None, None
        corpus = bd.file("corpus-%d-%s.txt" % (seed, tier))
        ncases = 1500 if tier == "quick" else 20000
        rc, out, e = C.run([hexe, "--prop", "C17", "--cfg", "q1", "--seed", str(seed), "--cases", str(ncases), "--max-len", "50", "--emit", corpus], timeout=1800)
        jobs = [(n, x) for n, x in exes.items() if n not in errs]
        results = C.parallel(jobs, lambda j: C.run([j[1], corpus], timeout=3600))
        tables = {}
        for (name, exe), (rc, out, e) in zip(jobs, results):
            rows = {}
            for l in out.splitlines():
                w = l.split()
                if w and w[0] == "D":
                    rows[(int(w[1]), w[2])] = (w[3], w[4], int(w[5], 16), w[6])
            if rc != 0 or not rows:
                dest = os.path.join(C.REPLAYS_TMP, "%s-crash-%s.txt" % (prop, name.replace("+", "p")))
                with open(dest, "w") as f:
                    f.write((out[-2000:] + e[-3000:]))
                verdict.violation(dest, "build %s crashed or produced no trace while executing the corpus" % name)
                nviol += 1
                continue
            tables[name] = rows
        names = sorted(tables)
        evals = sum(len(t) for t in tables.values())
        nontriv = set()
        samples = []
        if names:
            ref = tables[names[0]]
            for k, v in ref.items():
                if v[2] & NT_FLAGS:
                    nontriv.add(k)
            reported = 0
            for n in names[1:]:
                for k, v in tables[n].items():
                    r = ref.get(k)
                    if r is None:
                        continue
                    if r[0] != v[0] or r[1] != v[1]:
                        facts = dict(clause="digest_differs", build=n, cfg=k[1])
                        kf = C.match_known(prop, facts)
                        if kf:
                            verdict.known_finding(kf["id"], kf["what"])
                            continue
                        if reported < 4:
                            # extract the program text
                            with open(corpus) as f:
                                texts = f.read().split("verif-replay 1\n")[1:]
                            dest = os.path.join(C.REPLAYS_TMP, "%s-%s-%d-%s.replay" % (prop, n.replace("+", "p"), k[0], k[1]))
                            with open(dest, "w") as f:
                                f.write("verif-replay 1\n" + texts[k[0]].replace("cfg q1", "cfg " + k[1]) if k[0] < len(texts) else "")
                                f.write("# digest under %s: %s (failed=%s %s); under %s: %s (failed=%s %s)\n" % (names[0], r[0], r[1], r[3], n, v[0], v[1], v[3]))
                            verdict.violation(dest, "program %d on %s: observation trace under %s differs from %s" % (k[0], k[1], n, names[0]))
                        reported += 1
                        nviol += 1
            # a failing oracle inside any build is a violation as well
            for n in names:
                for k, v in tables[n].items():
                    if v[1] == "1" and reported < 8:
                        dest = os.path.join(C.REPLAYS_TMP, "%s-oracle-%s-%d-%s.txt" % (prop, n.replace("+", "p"), k[0], k[1]))
                        with open(dest, "w") as f:
                            f.write("build %s program %d cfg %s clause %s\n" % (n, k[0], k[1], v[3]))
                        verdict.violation(dest, "build %s: model oracle failed (%s) on program %d, %s" % (n, v[3], k[0], k[1]))
                        reported += 1
                        nviol += 1
            with open(corpus) as f:
                texts = f.read().split("verif-replay 1\n")[1:]
            samples = ["verif-replay 1\n" + t for t in texts[:40] if t.count("\nop ") <= 8][:3]
        try:
            os.remove(corpus)
        except OSError:
            pass
    C.prune_builds("xstd")
    cov = dict(evaluations=evals, distinct_nontrivial=len(nontriv), rule=RULE, samples=samples or ["(corpus empty)"],
               builds=names, builds_failed_to_compile=sorted(errs), programs=len(set(k[0] for t in tables.values() for k in t)),
               configurations=["x1 NT 3/8 std", "x2 TRIV 0/3 TA(1,0,1)", "x3 NT 2/5 TA(ae)", "x4 MO 4/0 TA(0,1,0)", "x5 MOT 3/3 std"])
    return nviol, dict(cov=cov, wall=time.time() - t0, seed=seed)
