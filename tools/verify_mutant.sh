#!/bin/sh
# verify_mutant.sh <worktree-with-patch-applied> [jobs]
# Confirms: patch.diff applies to /repo HEAD, demo passes on the clean tree and fails with
# the patch, and the pinned test suite (built in the worktree) still passes with the patch.
# Writes <worktree>/VERIFY.txt.
set -u
WT=$1; J=${2:-8}
OUT=$WT/VERIFY.txt
: > $OUT
CLEAN=/tmp/mutclean_$$
git -C /repo worktree add -q --detach $CLEAN HEAD || exit 2
echo "repo_head=$(git -C /repo rev-parse --short HEAD)" >> $OUT
if git -C $CLEAN apply --check $WT/patch.diff 2>>$OUT; then echo "patch_applies=yes" >> $OUT; else echo "patch_applies=NO" >> $OUT; fi
CMD=$(grep -o 'g++ [^`]*demo.cpp -o demo' $WT/NOTES.md | head -1)
[ -z "$CMD" ] && CMD="g++ -std=c++17 -g -fsanitize=address,undefined -I source/include demo.cpp -o demo"
echo "demo_cmd=$CMD" >> $OUT
cp $WT/demo.cpp $CLEAN/demo.cpp
if [ -f $WT/demo.sh ]; then
  cp $WT/demo.sh $CLEAN/demo.sh
  sed -i "s/^demo_cmd=.*/demo_cmd=sh demo.sh/" $OUT
  (cd $CLEAN && sh demo.sh >/dev/null 2>&1; echo "demo_clean_exit=$?" >> $OUT)
  git -C $CLEAN apply $WT/patch.diff
  (cd $CLEAN && sh demo.sh >/dev/null 2>&1; echo "demo_patched_exit=$?" >> $OUT)
else
(cd $CLEAN && sh -c "$CMD" >/dev/null 2>>$OUT && ASAN_OPTIONS=detect_leaks=0 ./demo >/dev/null 2>&1; echo "demo_clean_exit=$?" >> $OUT)
git -C $CLEAN apply $WT/patch.diff
(cd $CLEAN && sh -c "$CMD" >/dev/null 2>>$OUT && ASAN_OPTIONS=detect_leaks=0 ./demo >/dev/null 2>&1; echo "demo_patched_exit=$?" >> $OUT)
fi
# the test suite with the patch
cmake -G Ninja -S $CLEAN -B $CLEAN/_build -DCMAKE_BUILD_TYPE=RelWithDebInfo -DGCH_SMALL_VECTOR_ENABLE_BENCHMARKS=OFF >/dev/null 2>&1
if cmake --build $CLEAN/_build -j$J >$CLEAN/build.log 2>&1; then echo "suite_build=ok" >> $OUT; else echo "suite_build=FAILED" >> $OUT; tail -5 $CLEAN/build.log >> $OUT; fi
ctest --test-dir $CLEAN/_build -j$J --timeout 900 2>&1 | grep -E "tests passed|tests failed" >> $OUT
git -C /repo worktree remove --force $CLEAN
cat $OUT
