#!/usr/bin/env python3
"""Copies the `change`, `needs` and `caught by` columns of the DESIGN.md §9 tables into
seeded/<id>/meta.json (fields change, needs_to_manifest, caught_by_summary)."""
import json, os, re

VERIF = os.path.dirname(os.path.dirname(os.path.abspath(__file__)))
rows = {}
for line in open(os.path.join(VERIF, "DESIGN.md")):
    m = re.match(r"^\| (C\d\d[a-z]) \| (C\d\d) \| (.*) \|$", line.rstrip("\n"))
    if not m:
        continue
    cells = [c.strip() for c in re.split(r"(?<!\\) \| ", m.group(3))]
    if len(cells) != 3:
        # `|` inside code spans: fall back to splitting from the right
        parts = m.group(3).rsplit(" | ", 2)
        if len(parts) != 3:
            print("cannot parse row", m.group(1)); continue
        cells = [c.strip() for c in parts]
    rows[m.group(1)] = cells
n = 0
for mid, (change, needs, caught) in sorted(rows.items()):
    p = os.path.join(VERIF, "seeded", mid, "meta.json")
    if not os.path.exists(p):
        print("no seeded dir for", mid); continue
    d = json.load(open(p))
    new = dict(d, change=change, needs_to_manifest=needs, caught_by_summary=caught)
    if new != d:
        json.dump(new, open(p, "w"), indent=1); n += 1
for mid in sorted(os.listdir(os.path.join(VERIF, "seeded"))):
    if mid not in rows:
        print("no DESIGN row for", mid)
print("updated", n)
