#!/usr/bin/env python3
"""Hand-written mutation sweep (sensitivity probe, not a registered check).

Each entry replaces one exact snippet of small_vector.hpp in a *scratch worktree* (never /repo),
runs the quick tier of the named properties against that worktree (VERIF_REPO=<worktree>) and
records which check reported a violation.  Evidence files written by these runs are restored
afterwards.  Usage:  tools/mutation_sweep.py <scratch-worktree> [id ...]

The entries are deliberately small (one token / one line) and sit in functions the sub-agent
mutants of /verif/seeded did not touch (swap, resize, assign, reserve, erase, memmove helpers).
Results are appended to tools/mutation_sweep.results.jsonl.
"""
import json, os, subprocess, sys, time, shutil, tempfile

HERE = os.path.dirname(os.path.abspath(__file__))
VERIF = os.path.dirname(HERE)
HDR = "source/include/gch/small_vector.hpp"

M = [
  # id, props, old, new, note
  ("S01", ["C01"],
   "          std::fill (begin_ptr (), end_ptr (), val);\n          uninitialized_fill (end_ptr (), unchecked_next (begin_ptr (), count), val);",
   "          uninitialized_fill (end_ptr (), unchecked_next (begin_ptr (), count), val);",
   "assign(count, v), size < count <= capacity: live prefix not overwritten"),
  ("S02", ["C10"],
   "        const size_ty count = external_range_length (first, last);\n        if (get_capacity () < count)\n        {\n          size_ty new_capacity = checked_calculate_new_capacity (count);",
   "        const size_ty count = external_range_length (first, last);\n        if (get_size () < count && get_capacity () <= count)\n        {\n          size_ty new_capacity = checked_calculate_new_capacity (count);",
   "assign(forward range) reallocates when count == capacity"),
  ("S03", ["C06", "C03"],
   "            destroy_range (unchecked_next (new_data_ptr, original_size), new_last);\n            deallocate (new_data_ptr, new_capacity);",
   "            destroy_range (new_data_ptr, new_last);\n            deallocate (new_data_ptr, new_capacity);",
   "resize (realloc) handler destroys the not-yet-relocated prefix of the new buffer"),
  ("S04", ["C10"],
   "        if (request <= get_capacity ())\n          return;",
   "        if (request < get_capacity ())\n          return;",
   "reserve(capacity()) reallocates"),
  ("S05", ["C03", "C02"],
   "          uninitialized_move (begin_ptr (), end_ptr (), other.storage_ptr ());\n          destroy_range (begin_ptr (), end_ptr ());\n",
   "          uninitialized_move (begin_ptr (), end_ptr (), other.storage_ptr ());\n",
   "swap (inline <-> heap): moved-from inline elements never destroyed"),
  ("S06", ["C01", "C02"],
   "        if (get_capacity () < other.get_capacity ())\n          swap_default (other);\n        else\n          other.swap_default (*this);\n      }",
   "        if (get_size () < other.get_size ())\n          swap_default (other);\n        else\n          other.swap_default (*this);\n      }",
   "swap dispatches on size instead of capacity"),
  ("S07", ["C13", "C01"],
   "        if (num_moved != 0)\n          std::memmove (to_address (d_first), to_address (first), num_moved * sizeof (value_ty));\n        return unchecked_next (d_first, num_moved);",
   "        if (num_moved != 0)\n          std::memcpy (to_address (d_first), to_address (first), num_moved * sizeof (value_ty));\n        return unchecked_next (d_first, num_moved);",
   "erase on trivially copyable elements uses memcpy on overlapping ranges"),
  ("S08", ["C04", "C07"],
   "          destroy_range (begin_ptr (), end_ptr ());\n          if (has_allocation ())\n            deallocate (data_ptr (), get_capacity ());\n\n          set_data_ptr (new_data_ptr);\n          set_capacity (new_capacity);\n          swap_size (other);",
   "          destroy_range (begin_ptr (), end_ptr ());\n\n          set_data_ptr (new_data_ptr);\n          set_capacity (new_capacity);\n          swap_size (other);",
   "swap with unequal non-propagating allocators leaks the old heap block"),
  ("S09", ["C01", "C03"],
   "        else\n          erase_range (unchecked_next (begin_ptr (), new_size), end_ptr ());\n\n        // Do nothing if the count is the same as the current size.",
   "        else if (new_size != 0)\n          erase_range (unchecked_next (begin_ptr (), new_size), end_ptr ());\n\n        // Do nothing if the count is the same as the current size.",
   "harmless: resize(0) already handled by erase_all (control: must NOT be reported)"),
  ("S10", ["C01", "C06"],
   "        const ptr other_tail = std::swap_ranges (begin_ptr (), end_ptr (), other.begin_ptr ());\n        uninitialized_move (other_tail, other.end_ptr (), end_ptr ());\n        destroy_range (other_tail, other.end_ptr ());\n\n        swap_size (other);",
   "        const ptr other_tail = std::swap_ranges (begin_ptr (), end_ptr (), other.begin_ptr ());\n        swap_size (other);\n        uninitialized_move (other_tail, unchecked_next (other_tail, get_size () - other.get_size ()), unchecked_next (begin_ptr (), other.get_size ()));\n        destroy_range (other_tail, unchecked_next (other_tail, get_size () - other.get_size ()));\n",
   "swap_elements publishes the sizes before the tail is moved (a throwing move leaves garbage counted as elements)"),
  ("S11", ["C05"],
   "            // Strong exception guarantee.\n            uninitialized_move<strong_exception_policy> (begin_ptr (), end_ptr (), new_data_ptr);\n          }\n          GCH_CATCH (...)\n          {\n            destroy_range (unchecked_next (new_data_ptr, original_size), new_last);",
   "            // Strong exception guarantee.\n            uninitialized_move (begin_ptr (), end_ptr (), new_data_ptr);\n          }\n          GCH_CATCH (...)\n          {\n            destroy_range (unchecked_next (new_data_ptr, original_size), new_last);",
   "resize (realloc) relocates with plain moves: not strong for throwing-move + copyable types"),
  ("S12", ["C14", "C10"],
   "        size_ty new_capacity = checked_calculate_new_capacity (request);\n        ptr     new_begin    = unchecked_allocate (new_capacity);\n\n        GCH_TRY\n        {\n          uninitialized_move<strong_exception_policy> (begin_ptr (), end_ptr (), new_begin);",
   "        size_ty new_capacity = request;\n        if (get_max_size () < request)\n          throw_allocation_size_error ();\n        ptr     new_begin    = unchecked_allocate (new_capacity);\n\n        GCH_TRY\n        {\n          uninitialized_move<strong_exception_policy> (begin_ptr (), end_ptr (), new_begin);",
   "reserve allocates exactly the request (reserve(size()+1) loops lose geometric growth)"),
]


def sh(cmd, **kw):
    return subprocess.run(cmd, shell=True, stdout=subprocess.PIPE, stderr=subprocess.STDOUT, text=True, **kw)


def main():
    wt = os.path.abspath(sys.argv[1])
    assert not wt.startswith("/repo") and not wt.startswith("/verif")
    want = set(sys.argv[2:])
    hdr = os.path.join(wt, HDR)
    out = open(os.path.join(HERE, "mutation_sweep.results.jsonl"), "a")
    keep = tempfile.mkdtemp(prefix="evkeep")
    for f in os.listdir(os.path.join(VERIF, "evidence")):
        shutil.copy2(os.path.join(VERIF, "evidence", f), keep)
    try:
        for mid, props, old, new, note in M:
            if want and mid not in want:
                continue
            sh("git -C %s checkout -- ." % wt)
            src = open(hdr).read()
            if src.count(old) != 1:
                print(mid, "SNIPPET-NOT-UNIQUE", src.count(old)); continue
            open(hdr, "w").write(src.replace(old, new))
            rec = {"id": mid, "note": note, "props": {}}
            for p in props:
                t0 = time.time()
                r = sh("./verif check %s --tier quick" % p, cwd=VERIF,
                       env=dict(os.environ, VERIF_REPO=wt, VERIF_SEED="1"))
                lines = [l for l in r.stdout.splitlines() if l.startswith(("VIOLATION", "KNOWN-FINDING", "BUILD-ERROR", "INCONCLUSIVE"))]
                tail = r.stdout.strip().splitlines()[-1:] if r.stdout.strip() else []
                rec["props"][p] = {"exit": r.returncode, "lines": lines[:3], "tail": tail, "s": round(time.time() - t0)}
                print(mid, p, "exit", r.returncode, lines[:1], flush=True)
            out.write(json.dumps(rec) + "\n"); out.flush()
    finally:
        sh("git -C %s checkout -- ." % wt)
        for f in os.listdir(keep):
            shutil.copy2(os.path.join(keep, f), os.path.join(VERIF, "evidence", f))
        shutil.rmtree(keep)
        sh("rm -rf %s/replays/tmp/*" % VERIF)


if __name__ == "__main__":
    main()
