#!/bin/sh
# verifies, one at a time, every /tmp/mut/<id> that has a patch.diff but no VERIFY.txt yet
while true; do
  todo=""
  for d in /tmp/mut/*/; do
    [ -f "$d/patch.diff" ] && [ -f "$d/demo.cpp" ] && [ ! -f "$d/VERIFY.txt" ] && todo="$d" && break
  done
  [ -z "$todo" ] && { sleep 60; [ -f /tmp/mut/STOP ] && exit 0; continue; }
  /verif/tools/verify_mutant.sh "${todo%/}" ${1:-10} > "${todo%/}.verify.log" 2>&1
done
