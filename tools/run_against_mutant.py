#!/usr/bin/env python3
"""run_against_mutant.py <seeded-id> <Cxx> [<Cyy> ...]
Applies seeded/<id>/patch.diff to /repo (git apply), runs the given checks (quick tier),
undoes the change (git checkout -- .), restores the evidence files and records the outcome
in seeded/<id>/meta.json."""
import json, os, subprocess, sys, time
mid = sys.argv[1]
props = sys.argv[2:]
d = os.path.join("/verif/seeded", mid)
patch = os.path.join(d, "patch.diff")
st = subprocess.run(["git", "-C", "/repo", "status", "--porcelain"], stdout=subprocess.PIPE).stdout.decode().strip()
if st:
    sys.exit("/repo is not clean:\n" + st)
if subprocess.run(["git", "-C", "/repo", "apply", patch]).returncode != 0:
    sys.exit("patch does not apply to /repo HEAD")
meta = json.load(open(os.path.join(d, "meta.json")))
head = subprocess.run(["git", "-C", "/repo", "rev-parse", "--short", "HEAD"], stdout=subprocess.PIPE).stdout.decode().strip()
try:
    for p in props:
        t0 = time.time()
        r = subprocess.run(["./verif", "check", p, "--tier", "quick"], cwd="/verif", stdout=subprocess.PIPE, stderr=subprocess.STDOUT)
        out = r.stdout.decode(errors="replace")
        viol = [l for l in out.splitlines() if l.startswith("VIOLATION")]
        detail = ""
        lines = out.splitlines()
        for i, l in enumerate(lines):
            if l.startswith("VIOLATION") and i + 1 < len(lines):
                detail = lines[i + 1].strip()[:300]
                break
        meta.setdefault("checks_run_against_it", {})[p] = {
            "how": "git -C /repo apply seeded/%s/patch.diff; ./verif check %s --tier quick (VERIF_SEED=%s); git -C /repo checkout -- ." % (mid, p, os.environ.get("VERIF_SEED", "1")),
            "repo_head": head, "exit_code": r.returncode, "violations_reported": len(viol),
            "verdict": "caught" if (r.returncode == 1 and viol) else ("missed" if r.returncode == 0 else "inconclusive"),
            "first_violation": detail, "wall_s": round(time.time() - t0, 1),
        }
        print(mid, p, meta["checks_run_against_it"][p]["verdict"], detail[:160])
finally:
    subprocess.run(["git", "-C", "/repo", "checkout", "--", "."])
    subprocess.run(["git", "-C", "/verif", "checkout", "--", "evidence"])
    json.dump(meta, open(os.path.join(d, "meta.json"), "w"), indent=1)
