#!/usr/bin/env python3
"""import_mutant.py <worktree> <id> <property> -- copies a verified seeded change into /verif/seeded/<id>/."""
import json, os, shutil, subprocess, sys
wt, mid, prop = sys.argv[1:4]
dst = os.path.join("/verif/seeded", mid)
os.makedirs(dst, exist_ok=True)
for n in ("patch.diff", "demo.cpp", "NOTES.md", "demo.sh"):
    if os.path.exists(os.path.join(wt, n)):
        shutil.copyfile(os.path.join(wt, n), os.path.join(dst, n))
ver = {}
for line in open(os.path.join(wt, "VERIFY.txt")):
    if "=" in line:
        k, v = line.strip().split("=", 1)
        ver[k] = v
    elif "tests passed" in line:
        ver["suite"] = line.strip()
notes = open(os.path.join(wt, "NOTES.md")).read()
meta = {
    "id": mid,
    "property": prop,
    "origin": "written by a fresh sub-agent that saw only the property text and its own scratch worktree",
    "needs_to_manifest": "see NOTES.md (section on what it needs to manifest)",
    "verified_by_me": {
        "patch_applies_to_repo_head": ver.get("patch_applies"), "repo_head_at_verification": ver.get("repo_head"),
        "demo_command": ver.get("demo_cmd"), "demo_exit_clean_tree": ver.get("demo_clean_exit"), "demo_exit_with_patch": ver.get("demo_patched_exit"),
        "pinned_suite_build_with_patch": ver.get("suite_build"), "pinned_suite_result_with_patch": ver.get("suite"),
        "how": "tools/verify_mutant.sh: fresh worktree of /repo HEAD, demo built and run before/after `git apply patch.diff`, then cmake + ninja + ctest of the whole pinned suite in that worktree",
    },
    "checks_run_against_it": {},
}
mp = os.path.join(dst, "meta.json")
if os.path.exists(mp):
    old = json.load(open(mp))
    meta["checks_run_against_it"] = old.get("checks_run_against_it", {})
    meta["needs_to_manifest"] = old.get("needs_to_manifest", meta["needs_to_manifest"])
json.dump(meta, open(mp, "w"), indent=1)
print("imported", mid)
