// cx_interp.hpp -- C08: a constant-evaluation-clean interpreter of small_vector programs.
// The same function is evaluated by the compiler (constexpr variable) and executed at
// run time on the same bytes; the per-step digests must agree.  All arithmetic is
// unsigned (the evaluators reject signed overflow).
#ifndef VH_CX_INTERP_HPP
#define VH_CX_INTERP_HPP

#include <gch/small_vector.hpp>

#include <memory>
#include <utility>

namespace cx
{

  struct Dig
  {
    unsigned long long h = 1469598103934665603ull;
    unsigned steps = 0;
    unsigned flags = 0;          // bit0: mid insert without reallocation, bit1: copy/move assign, bit2: shrink_to_fit, bit3: cross-capacity move
    constexpr void add (unsigned long long x)
    {
      for (unsigned i = 0; i < 8; ++i) { h ^= (x >> (8 * i)) & 0xffu; h *= 1099511628211ull; }
    }
    constexpr bool operator== (const Dig& o) const { return h == o.h && steps == o.steps; }
  };

  // non-trivial literal element type with user-provided constexpr special members
  struct LC
  {
    unsigned v;
    constexpr LC () : v (0) { }
    constexpr LC (unsigned x) : v (x) { }
    constexpr LC (const LC& o) : v (o.v) { }
    constexpr LC (LC&& o) noexcept : v (o.v) { o.v = 0xdeadu; }
    constexpr LC& operator= (const LC& o) { v = o.v; return *this; }
    constexpr LC& operator= (LC&& o) noexcept { v = o.v; if (&o != this) o.v = 0xdeadu; return *this; }
    constexpr ~LC () { }
    constexpr bool operator== (const LC& o) const { return v == o.v; }
    constexpr bool operator< (const LC& o) const { return v < o.v; }
  };

  constexpr unsigned val (unsigned x) { return x; }
  constexpr unsigned val (const LC& x) { return x.v; }

  // constexpr-capable allocator with an id; all propagation traits = P
  template <typename T, bool P>
  struct IdAlloc
  {
    using value_type = T;
    using propagate_on_container_copy_assignment = std::bool_constant<P>;
    using propagate_on_container_move_assignment = std::bool_constant<P>;
    using propagate_on_container_swap = std::bool_constant<P>;
    using is_always_equal = std::false_type;
    template <typename U> struct rebind { using other = IdAlloc<U, P>; };
    unsigned id = 1;
    constexpr IdAlloc () noexcept = default;
    constexpr explicit IdAlloc (unsigned i) noexcept : id (i) { }
    template <typename U> constexpr IdAlloc (const IdAlloc<U, P>& o) noexcept : id (o.id) { }
    constexpr T *allocate (std::size_t n) { return std::allocator<T> ().allocate (n); }
    constexpr void deallocate (T *p, std::size_t n) noexcept { std::allocator<T> ().deallocate (p, n); }
  };
  template <typename T, typename U, bool P> constexpr bool operator== (const IdAlloc<T, P>& a, const IdAlloc<U, P>& b) noexcept { return a.id == b.id; }
  template <typename T, typename U, bool P> constexpr bool operator!= (const IdAlloc<T, P>& a, const IdAlloc<U, P>& b) noexcept { return a.id != b.id; }

  template <typename A> struct MakeAlloc { static constexpr A make (unsigned) { return A (); } };
  template <typename T, bool P> struct MakeAlloc<IdAlloc<T, P>> { static constexpr IdAlloc<T, P> make (unsigned i) { return IdAlloc<T, P> (1 + (i & 1u)); } };

  enum : unsigned { MAXSZ = 20 };

  template <typename V>
  constexpr void
  observe (Dig& d, const V& v, bool tainted)
  {
    d.add (v.size ());
    for (const auto& e : v) d.add (val (e));
    if (! tainted) d.add (v.capacity ());
  }

  // single-container operations; returns nothing, mixes results into d
  template <typename V>
  constexpr void
  op1 (Dig& d, V& v, bool& taint, unsigned kind, unsigned a, unsigned b, unsigned c, unsigned& fresh)
  {
    using T = typename V::value_type;
    using S = typename V::size_type;
    using D = typename V::difference_type;
    const unsigned sz = static_cast<unsigned> (v.size ());
    const unsigned cap = static_cast<unsigned> (v.capacity ());
    // arguments must not depend on a capacity that may legitimately differ under constant evaluation
    const unsigned capa = taint ? 6u : cap;
    const unsigned x = fresh++;
    switch (kind)
    {
      case 0: if (sz < MAXSZ) v.push_back (T (x)); break;
      case 1: if (sz < MAXSZ) { T t (x); v.push_back (t); } break;
      case 2: if (sz < MAXSZ) { T& r = v.emplace_back (x); d.add (val (r)); } break;
      case 3: if (sz != 0) v.pop_back (); break;
      case 4: if (sz < MAXSZ) { const unsigned p = a % (sz + 1); auto it = v.insert (v.cbegin () + static_cast<D> (p), T (x)); d.add (static_cast<unsigned> (it - v.begin ())); if (p < sz && sz < cap) d.flags |= 1u; } break;
      case 5: if (sz < MAXSZ) { const unsigned p = a % (sz + 1); T t (x); auto it = v.insert (v.cbegin () + static_cast<D> (p), t); d.add (static_cast<unsigned> (it - v.begin ())); if (p < sz && sz < cap) d.flags |= 1u; } break;
      case 6:
      {
        const unsigned p = a % (sz + 1);
        unsigned n = (c & 1u) ? (capa > sz ? capa - sz : 0u) + (b % 2u) : b % 4u;
        if (sz + n > MAXSZ) n = MAXSZ > sz ? MAXSZ - sz : 0;
        T t (x);
        auto it = v.insert (v.cbegin () + static_cast<D> (p), static_cast<S> (n), t);
        d.add (static_cast<unsigned> (it - v.begin ()));
        if (p < sz && n != 0 && sz + n <= cap) d.flags |= 1u;
        break;
      }
      case 7:
      {
        // insert a range from an array (forward / contiguous)
        const unsigned p = a % (sz + 1);
        unsigned n = b % 5u;
        if (sz + n > MAXSZ) n = MAXSZ > sz ? MAXSZ - sz : 0;
        T arr[4] = { T (x), T (x + 1000u), T (x + 2000u), T (x + 3000u) };
        auto it = v.insert (v.cbegin () + static_cast<D> (p), arr, arr + (n > 4 ? 4 : n));
        d.add (static_cast<unsigned> (it - v.begin ()));
        if (p < sz && n != 0 && sz + n <= cap) d.flags |= 1u;
        break;
      }
      case 8: if (sz < MAXSZ) { const unsigned p = a % (sz + 1); auto it = v.emplace (v.cbegin () + static_cast<D> (p), x); d.add (static_cast<unsigned> (it - v.begin ())); if (p < sz && sz < cap) d.flags |= 1u; } break;
      case 9: if (sz != 0) { const unsigned e = a % sz; auto it = v.erase (v.cbegin () + static_cast<D> (e)); d.add (static_cast<unsigned> (it - v.begin ())); } break;
      case 10: { const unsigned f = a % (sz + 1); const unsigned l = f + b % (sz - f + 1); auto it = v.erase (v.cbegin () + static_cast<D> (f), v.cbegin () + static_cast<D> (l)); d.add (static_cast<unsigned> (it - v.begin ())); break; }
      case 11: v.clear (); break;
      case 12: { unsigned n = (c & 1u) ? capa + (b % 2u) : b % (2 * capa + 2); if (n > MAXSZ) n = MAXSZ; v.resize (static_cast<S> (n)); break; }
      case 13: { unsigned n = (c & 1u) ? capa + (b % 2u) : b % (2 * capa + 2); if (n > MAXSZ) n = MAXSZ; T t (x); v.resize (static_cast<S> (n), t); break; }
      case 14: { unsigned n = (c & 1u) ? capa + 1 : b % (2 * capa + 2); if (n > MAXSZ + 4) n = MAXSZ + 4; v.reserve (static_cast<S> (n)); break; }
      case 15: v.shrink_to_fit (); taint = false; d.flags |= 4u; break;
      case 16: { unsigned n = (c & 1u) ? capa + (b % 2u) : b % (2 * capa + 2); if (n > MAXSZ) n = MAXSZ; T t (x); v.assign (static_cast<S> (n), t); break; }
      case 17: { unsigned n = b % 5u; T arr[4] = { T (x), T (x + 1000u), T (x + 2000u), T (x + 3000u) }; v.assign (arr, arr + (n > 4 ? 4 : n)); break; }
      case 18: { unsigned n = b % 5u; if (sz + n > MAXSZ) n = 0; T arr[4] = { T (x), T (x + 1000u), T (x + 2000u), T (x + 3000u) }; v.append (arr, arr + (n > 4 ? 4 : n)); break; }
      case 19: if (sz != 0) { const unsigned e = a % sz; d.add (val (v.at (static_cast<S> (e)))); d.add (val (v[static_cast<S> (e)])); d.add (val (v.front ())); d.add (val (v.back ())); } break;
      case 20: if (sz != 0 && sz < MAXSZ) { const unsigned e = a % sz; v.push_back (v[static_cast<S> (e)]); } break;                 // alias
      case 21: if (sz != 0 && sz < MAXSZ) { const unsigned e = a % sz; const unsigned p = b % (sz + 1); v.insert (v.cbegin () + static_cast<D> (p), v[static_cast<S> (e)]); if (p < sz && sz < cap) d.flags |= 1u; } break;
      case 22:
        if (sz != 0)
        {
          const unsigned e = a % sz; const unsigned p = b % (sz + 1);
          unsigned n = (c & 1u) ? (capa > sz ? capa - sz : 0u) : c % 3u;
          if (sz + n > MAXSZ) n = 0;
          v.insert (v.cbegin () + static_cast<D> (p), static_cast<S> (n), v[static_cast<S> (e)]);
          if (p < sz && n != 0 && sz + n <= cap) d.flags |= 1u;
        }
        break;
      case 23: { unsigned n = b % 4u; v = V (static_cast<S> (n)); taint = true; break; }                 // count constructor, move-assigned
      case 24: { unsigned n = b % 4u; T t (x); v = V (static_cast<S> (n), t); taint = true; break; }
      case 25: { v = { T (x), T (x + 1000u) }; break; }                                                    // operator= (initializer_list)
      case 26: { auto it = v.insert (v.cbegin (), { T (x), T (x + 1000u) }); d.add (static_cast<unsigned> (it - v.begin ())); if (sz != 0 && sz + 2 <= cap) d.flags |= 1u; if (v.size () > MAXSZ + 4) v.resize (MAXSZ); break; }
      default: break;
    }
  }

  // two-container operations
  template <typename V, typename W>
  constexpr void
  op2 (Dig& d, V& v, bool& tv, W& w, bool& tw, unsigned kind, unsigned b, bool same_object)
  {
    using T = typename V::value_type;
    switch (kind)
    {
      case 0: v.assign (w); d.flags |= 2u; break;                                   // copy assign (same or cross capacity)
      case 1: if (! same_object) { v.assign (std::move (w)); w.clear (); tv = true; tw = true; d.flags |= 2u; if (! std::is_same<V, W>::value) d.flags |= 8u; } break;
      case 2: if (! same_object && v.size () + w.size () <= MAXSZ) v.append (w); break;
      case 3: if (! same_object && v.size () + w.size () <= MAXSZ) { v.append (std::move (w)); tw = true; } break;
      case 4: d.add ((v == w) ? 1u : 0u); d.add ((v < w) ? 1u : 0u); d.add ((v != w) ? 1u : 0u); d.add ((v >= w) ? 1u : 0u); break;
      case 5: { V tmp (w); d.add (tmp.size ()); v.assign (std::move (tmp)); tv = true; d.flags |= 2u; break; }              // copy construct (converting when W != V)
      case 6: if (! same_object) { V tmp (std::move (w)); w.clear (); tw = true; d.add (tmp.size ()); v.assign (std::move (tmp)); tv = true; d.flags |= 2u; if (! std::is_same<V, W>::value) d.flags |= 8u; } break;
      case 7: if (! same_object && v.size () + w.size () <= MAXSZ) { v.insert (v.cbegin () + static_cast<typename V::difference_type> (b % (v.size () + 1)), w.begin (), w.end ()); } break;
      default: break;
    }
    (void) sizeof (T);
  }

  template <typename V>
  constexpr void
  do_swap (Dig&, V& v, bool& tv, V& w, bool& tw, bool adl)
  {
    if (adl) { using std::swap; swap (v, w); } else v.swap (w);
    tv = true; tw = true;
  }

  // prog: 4 bytes per op: kind, a, b, c.   kind < 128: single-container op on slot (c >> 6) % 3;
  // kind >= 128: two-container op, target slot (c >> 6) % 3, source slot (c >> 4) % 3.
  template <typename T, unsigned N, unsigned M, typename A>
  constexpr Dig
  run (const unsigned char *prog, unsigned len)
  {
    using VA = gch::small_vector<T, N, A>;
    using VB = gch::small_vector<T, M, A>;
    Dig d;
    VA a0 (MakeAlloc<A>::make (0)), a1 (MakeAlloc<A>::make (1));
    VB b0 (MakeAlloc<A>::make (0));
    bool t0 = false, t1 = false, t2 = false;
    unsigned fresh = 1;
    for (unsigned i = 0; i + 3 < len; i += 4)
    {
      const unsigned kind = prog[i], a = prog[i + 1], b = prog[i + 2], c = prog[i + 3];
      const unsigned t = (c >> 6) % 3u, s = (c >> 4) % 3u;
      d.add (kind);
      if (kind < 128u)
      {
        const unsigned k = kind % 27u;
        if (t == 0) op1 (d, a0, t0, k, a, b, c, fresh);
        else if (t == 1) op1 (d, a1, t1, k, a, b, c, fresh);
        else op1 (d, b0, t2, k, a, b, c, fresh);
      }
      else
      {
        const unsigned k = (kind - 128u) % 10u;
        if (k >= 8)
        {
          // swap within the same inline capacity
          if (t != 2 && s != 2 && t != s) do_swap (d, a0, t0, a1, t1, k == 9);
          else if (t == s && t == 0) do_swap (d, a0, t0, a0, t0, k == 9);
        }
        else if (t == 0 && s == 0) op2 (d, a0, t0, a0, t0, k, b, true);
        else if (t == 0 && s == 1) op2 (d, a0, t0, a1, t1, k, b, false);
        else if (t == 0 && s == 2) op2 (d, a0, t0, b0, t2, k, b, false);
        else if (t == 1 && s == 0) op2 (d, a1, t1, a0, t0, k, b, false);
        else if (t == 1 && s == 1) op2 (d, a1, t1, a1, t1, k, b, true);
        else if (t == 1 && s == 2) op2 (d, a1, t1, b0, t2, k, b, false);
        else if (t == 2 && s == 0) op2 (d, b0, t2, a0, t0, k, b, false);
        else if (t == 2 && s == 1) op2 (d, b0, t2, a1, t1, k, b, false);
        else op2 (d, b0, t2, b0, t2, k, b, true);
      }
      observe (d, a0, t0); observe (d, a1, t1); observe (d, b0, t2);
      ++d.steps;
    }
    return d;
  }

} // namespace cx

#endif
