// hist_main.cpp -- rapidcheck driver, replay runner and fault enumerator for the program
// interpreter.  This is the only translation unit that includes rapidcheck; it does not
// include small_vector.hpp.  Configurations are linked in from their own TUs.
#include "core.hpp"
#include "program.hpp"

#include <rapidcheck.h>

#include <algorithm>
#include <csignal>
#include <cstdio>
#include <cstdlib>
#include <cstring>
#include <exception>
#include <fstream>
#include <map>
#include <set>
#include <string>
#include <unistd.h>
#include <unordered_set>
#include <vector>

using namespace vh;

extern "C" void __sanitizer_set_death_callback (void (*) (void)) __attribute__ ((weak));

// ---------------------------------------------------------------------- property table
struct PropSpec
{
  const char *name;
  unsigned    probes;
  unsigned    need_all;     // non-trivial: all of these flags ...
  unsigned    need_any;     // ... and (if non-zero) any of these
  const char *profile;      // generator weight profile
  bool        fault;        // uses the fault engine
  unsigned    fault_mask;
  const char *rule;
};

static const PropSpec PROPS[] = {
  { "C01", PR_C01, RF_MID_MUTATION_AFTER_TRANSITION, RF_INLINE_TO_HEAP | RF_HEAP_TO_INLINE, "mix", false, 0,
    "history contains an inline->heap or heap->inline transition and a mid-sequence insert/erase after it" },
  { "C02", PR_C02 | PR_C01, RF_REPR_3CLASSES, 0, "whole", false, 0,
    "a slot passed through >= 3 representation classes {fresh-inline, heap, shrunk-back-inline, stolen-from, element-wise-moved-from, post-throw}" },
  { "C03", PR_C03 | PR_C01, RF_REALLOC | RF_MID_SHIFT | RF_WHOLE_TRANSFER, 0, "mix", false, 0,
    "history contains >= 1 reallocation, >= 1 mid-sequence shift and >= 1 whole-container transfer" },
  { "C04", PR_C04 | PR_C01 | PR_C02, 0, RF_MULTI_OWNER | RF_FITS_AT_EDGE | RF_SMALL_ONLY_FULL, "whole", false, 0,
    "a heap buffer had >= 2 owners, or an op met the 'fits' premise with size within 1 of capacity (small-only mode: the inline buffer was filled completely)" },
  { "C05", PR_C05 | PR_C02, 0, 0, "mix", true, MASK_C05,
    "the injected fault fired after at least one element had been constructed/relocated or a block allocated inside the call" },
  { "C06", PR_C06 | PR_C02 | PR_C03 | PR_C04, 0, 0, "mix", true, MASK_ALL,
    "the injected fault fired after at least one earlier eligible event inside the call, or a second fault fired inside roll-back code" },
  { "C07", PR_C07 | PR_C01 | PR_C02 | PR_C04, RF_UNEQUAL_ALLOC_OP, 0, "whole", false, 0,
    "a copy/move/swap/assign between containers with unequal allocator ids where at least one side is heap" },
  { "C09", PR_C09 | PR_C01 | PR_C02, 0, RF_STEAL_CROSS | RF_NOSTEAL_SMALLBUF, "whole", false, 0,
    "steal premise true across different inline capacities, or false because N_dest >= source.capacity() > N_source" },
  { "C10", PR_C10 | PR_C01, 0, RF_BOUNDARY_OP | RF_RESERVE_EQ, "grow", false, 0,
    "an op landed within +-1 of the capacity boundary, or reserve(n) with n == capacity()" },
  { "C11", PR_C11 | PR_C01, RF_ALIAS_SHIFTED, 0, "alias", false, 0,
    "aliased element lies in the shifted part (i >= pos) or the aliasing call reallocated" },
  { "C13", PR_C13 | PR_C01 | PR_C02 | PR_TRACE, RF_MEMMOVE_MID | RF_CONTIG_RANGE, 0, "mix", false, 0,
    "program contains a mid-sequence erase/insert (memmove paths) and a range op from a contiguous source (memcpy paths)" },
  { "C14", PR_C14 | PR_C01, RF_GEOMETRIC_EDGE, 0, "grow", false, 0,
    "a reallocating call whose required capacity was <= 1.5x the old capacity (where linear and geometric growth differ)" },
  { "C15", PR_C15 | PR_C01, 0, RF_INPUT_CROSS_REALLOC | RF_INPUT_ASSIGN_DIFF | RF_INPUT_INSERT_MID, "input", false, 0,
    "single-pass range longer than the free capacity, or assign from a single-pass range of different length, or single-pass insert mid-sequence" },
  { "C16", PR_C16 | PR_C01, RF_COMPARE, 0, "compare", false, 0,
    "history contains a comparison between two slots" },
  { "C17", PR_C01 | PR_C02 | PR_TRACE, 0, RF_CONTIG_RANGE | RF_ALWAYS_EQUAL_MOVE | RF_COMPARE | RF_ITER_DEREF, "mix", false, 0,
    "program exercises a contiguous foreign iterator, an always-equal allocator move/swap, a comparison or an iterator dereference" },
  { "C18", PR_C18 | PR_C02, 0, 0, "whole", true, MASK_ALL,
    "fault injected into an operation that is not declared noexcept, after at least one earlier eligible event" },
};

static const PropSpec *
find_prop (const std::string& n)
{
  for (unsigned i = 0; i < sizeof PROPS / sizeof PROPS[0]; ++i)
    if (n == PROPS[i].name) return &PROPS[i];
  return 0;
}

// ---------------------------------------------------------------------- generator profiles
typedef std::vector<std::pair<unsigned, int> > Weights;

static Weights
profile_weights (const std::string& prof)
{
  // base weights per group
  unsigned g = 33, s = 19, w = 15, c = 10, o = 9, a = 5, m = 9;
  if (prof == "whole")   { g = 22; s = 10; w = 36; c = 16; o = 4;  a = 0;  m = 12; }
  if (prof == "grow")    { g = 50; s = 18; w = 10; c = 6;  o = 2;  a = 4;  m = 10; }
  if (prof == "alias")   { g = 20; s = 12; w = 6;  c = 6;  o = 2;  a = 44; m = 10; }
  if (prof == "input")   { g = 30; s = 14; w = 20; c = 16; o = 2;  a = 0;  m = 8;  }
  if (prof == "compare") { g = 30; s = 22; w = 12; c = 8;  o = 20; a = 0;  m = 8;  }
  std::map<char, unsigned> gw; gw['G'] = g; gw['S'] = s; gw['W'] = w; gw['C'] = c; gw['O'] = o; gw['A'] = a; gw['M'] = m;
  std::map<char, unsigned> cnt;
  for (int k = 0; k < OP_COUNT; ++k) ++cnt[op_group (k)];
  Weights out;
  for (int k = 0; k < OP_COUNT; ++k)
  {
    const char grp = op_group (k);
    unsigned wt = gw[grp] * 100u / cnt[grp];
    if (prof == "input" && (k == OP_insert_range || k == OP_assign_range || k == OP_append_range || k == OP_ctor_range || k == OP_ctor_gen)) wt *= 6;
    if (prof == "compare" && (k == OP_compare || k == OP_nm_erase || k == OP_nm_erase_if || k == OP_observe)) wt *= 5;
    if (prof == "grow" && (k == OP_reserve || k == OP_fill_to_capacity)) wt *= 2;
    if (wt != 0) out.push_back (std::make_pair (wt, k));
  }
  return out;
}

static rc::Gen<int>
gen_kind (const Weights& ws)
{
  unsigned total = 0;
  for (std::size_t i = 0; i < ws.size (); ++i) total += ws[i].first;
  Weights copy = ws;
  return rc::gen::map (rc::gen::resize (rc::kNominalSize, rc::gen::inRange<unsigned> (0, total)),
                       [copy] (unsigned r) {
                         for (std::size_t i = 0; i < copy.size (); ++i)
                         {
                           if (r < copy[i].first) return copy[i].second;
                           r -= copy[i].first;
                         }
                         return copy.back ().second;
                       });
}

static rc::Gen<Op>
gen_op (const Weights& ws)
{
  rc::Gen<int> byte = rc::gen::resize (rc::kNominalSize, rc::gen::inRange<int> (0, 256));
  return rc::gen::map (rc::gen::tuple (gen_kind (ws), byte, byte, byte, byte, byte, byte),
                       [] (const std::tuple<int, int, int, int, int, int, int>& x) {
                         Op o;
                         o.kind = static_cast<unsigned char> (std::get<0> (x));
                         o.t = static_cast<unsigned char> (std::get<1> (x) & 3);
                         o.s = static_cast<unsigned char> (std::get<2> (x) & 3);
                         o.a = static_cast<unsigned char> (std::get<3> (x));
                         o.b = static_cast<unsigned char> (std::get<4> (x));
                         o.c = static_cast<unsigned char> (std::get<5> (x));
                         o.d = static_cast<unsigned char> (std::get<6> (x));
                         return o;
                       });
}

namespace rc
{
  template <> struct Arbitrary<Op> { static Gen<Op> arbitrary () { return gen_op (profile_weights ("mix")); } };
  void showValue (const Op& o, std::ostream& os)
  {
    os << op_name (o.kind) << "(t=" << unsigned (o.t) << ",s=" << unsigned (o.s) << ",a=" << unsigned (o.a)
       << ",b=" << unsigned (o.b) << ",c=" << unsigned (o.c) << ",d=" << unsigned (o.d) << ")";
  }
}

// ---------------------------------------------------------------------- crash bookkeeping
static const Program *g_current = 0;
static std::string    g_crash_path;

static void
dump_current_case ()
{
  if (g_current == 0 || g_crash_path.empty ()) return;
  static bool done = false;
  if (done) return;
  done = true;
  write_file (g_crash_path.c_str (), to_text (*g_current));
}

static void
on_terminate ()
{
  dump_current_case ();
  std::fprintf (stderr, "VERIF-TERMINATE: std::terminate was called\n");
  std::_Exit (78);
}

static void
on_signal (int sig)
{
  dump_current_case ();
  std::fprintf (stderr, "VERIF-SIGNAL: %d\n", sig);
  std::_Exit (79);
}

// ---------------------------------------------------------------------- statistics
struct Stats
{
  unsigned long long cases, executions, steps, skipped, shrink_execs;
  std::unordered_set<unsigned long long> nontrivial;
  std::map<std::string, unsigned long long> classes;
  std::vector<std::string> samples;
  std::vector<std::string> nontrivial_samples;
  unsigned long long fault_points, faults_injected, faults_second, strong_checked;
  std::map<std::string, unsigned long long> fault_labels;
  std::map<std::string, unsigned long long> final_ops;
  Stats () : cases (0), executions (0), steps (0), skipped (0), shrink_execs (0), fault_points (0),
             faults_injected (0), faults_second (0), strong_checked (0) { }
};

static const char *FLAG_NAMES[] = {
  "inline_to_heap", "heap_to_inline", "mid_mutation_after_transition", "realloc", "mid_shift", "whole_transfer",
  "unequal_alloc_op", "steal", "steal_cross_capacity", "nosteal_small_buffer", "boundary_op", "reserve_eq_capacity",
  "alias_shifted", "alias_tail_lt_n", "alias_tail_ge_n", "geometric_edge", "input_cross_realloc", "input_assign_diff_len",
  "input_insert_mid", "multi_owner_buffer", "fits_at_edge", "memmove_mid", "contiguous_range", "repr_3_classes",
  "stolen_from", "elementwise_moved_from", "compare", "always_equal_move", "iter_deref", "small_only_full" };

static unsigned long long
fingerprint (const Program& p)
{
  Digest d;
  for (std::size_t i = 0; i < p.cfg.size (); ++i) d.add (static_cast<unsigned char> (p.cfg[i]));
  for (std::size_t i = 0; i < p.ops.size (); ++i)
  {
    const Op& o = p.ops[i];
    d.add (o.kind | (o.t << 8) | (o.s << 16) | (static_cast<unsigned long long> (o.a) << 24)
           | (static_cast<unsigned long long> (o.b) << 32) | (static_cast<unsigned long long> (o.c) << 40)
           | (static_cast<unsigned long long> (o.d) << 48));
  }
  d.add (p.fault_k); d.add (p.fault_j);
  return d.h;
}

static std::string
json_escape (const std::string& s)
{
  std::string o;
  for (std::size_t i = 0; i < s.size (); ++i)
  {
    const char c = s[i];
    if (c == '"' || c == '\\') { o += '\\'; o += c; }
    else if (c == '\n') o += "\\n";
    else if (static_cast<unsigned char> (c) < 0x20) o += ' ';
    else o += c;
  }
  return o;
}

// ---------------------------------------------------------------------- one checked case
struct Checker
{
  const PropSpec    *prop;
  const ConfigEntry *cfg;
  const ConfigEntry *twin;
  RunOptions         base;
  std::string        mode;
  Stats              st;
  bool               have_failure;
  Program            failing;
  RunResult          failing_res;
  bool               shrinking;

  Checker () : prop (0), cfg (0), twin (0), have_failure (false), shrinking (false) { }

  bool nontrivial (const RunResult& r) const
  {
    if ((r.flags & prop->need_all) != prop->need_all) return false;
    if (prop->need_any != 0 && (r.flags & prop->need_any) == 0) return false;
    return true;
  }

  void account (const Program& p, const RunResult& r, bool nontriv)
  {
    ++st.executions;
    st.steps += r.steps; st.skipped += r.skipped;
    for (unsigned b = 0; b < sizeof FLAG_NAMES / sizeof FLAG_NAMES[0]; ++b)
      if (r.flags & (1u << b)) ++st.classes[FLAG_NAMES[b]];
    if (nontriv)
    {
      st.nontrivial.insert (fingerprint (p));
      if (st.nontrivial_samples.size () < 2 && p.ops.size () <= 14) st.nontrivial_samples.push_back (to_text (p));
    }
    if (st.samples.size () < 3 && p.ops.size () >= 3 && p.ops.size () <= 12 && (st.executions % 97) == 1) st.samples.push_back (to_text (p));
  }

  void record_failure (const Program& p, const RunResult& r)
  {
    have_failure = true;
    failing = p;
    failing_res = r;
  }

  // fault-free history check; returns false on an oracle failure
  bool check_history (const std::vector<Op>& ops)
  {
    Program p; p.cfg = cfg->name; p.ops = ops; p.property = prop->name; p.mode = mode;
    g_current = &p;
    RunResult r;
    cfg->run (p, base, r);
    account (p, r, nontrivial (r));
    if (r.failed) { record_failure (p, r); g_current = 0; return false; }
    if (twin != 0)
    {
      Program q = p; q.cfg = twin->name;
      g_current = &q;
      RunResult r2;
      twin->run (q, base, r2);
      ++st.executions;
      if (r2.failed) { record_failure (q, r2); g_current = 0; return false; }
      if (r2.digest != r.digest)
      {
        r2.failed = true; r2.clause = "twin.trace_differs";
        r2.detail = std::string ("observation trace of ") + cfg->name + " and its trivially-copyable twin " + twin->name + " differ";
        p.mode = "twin";
        record_failure (p, r2);
        g_current = 0;
        return false;
      }
    }
    g_current = 0;
    return true;
  }

  static bool has_handler (int kind)
  {
    switch (kind)
    {
      case OP_insert_copy: case OP_insert_rv: case OP_insert_count: case OP_insert_range: case OP_insert_ilist:
      case OP_emplace: case OP_assign_count: case OP_assign_range: case OP_assign_ilist: case OP_opassign_ilist:
      case OP_swap_member: case OP_swap_adl: case OP_insert_alias: case OP_insert_count_alias: case OP_emplace_alias:
      case OP_append_range: case OP_append_move: case OP_append_copy:
        return true;
      default:
        return false;
    }
  }

  // fault engine: prefix fault-free, then every single fault point of the last op
  bool check_faults (const std::vector<Op>& ops)
  {
    if (ops.empty ()) return true;
    Program p; p.cfg = cfg->name; p.ops = ops; p.property = prop->name; p.mode = mode;
    RunOptions o = base; o.fault_mode = true; o.fault_mask = prop->fault_mask;
    g_current = &p;
    RunResult r0;
    o.fault_k = 0; o.fault_j = 0;
    cfg->run (p, o, r0);
    ++st.executions; st.steps += r0.steps; st.skipped += r0.skipped;
    ++st.final_ops[op_name (ops.back ().kind)];
    if (r0.failed) { record_failure (p, r0); g_current = 0; return false; }
    st.fault_points += r0.fault_points;
    const unsigned P = r0.fault_points;
    for (unsigned k = 1; k <= P; ++k)
    {
      p.fault_k = k; p.fault_j = 0;
      o.fault_k = k; o.fault_j = 0;
      RunResult r;
      cfg->run (p, o, r);
      ++st.faults_injected;
      if (r.fault_label >= 0) ++st.fault_labels[fault_label_name (r.fault_label)];
      if (r.strong_expected) ++st.strong_checked;
      account (p, r, r.fault_fired && r.fault_nontrivial);
      if (r.failed) { record_failure (p, r); g_current = 0; return false; }
      if (! r.fault_fired) continue;
      if (prop->fault_mask == MASK_ALL && has_handler (ops.back ().kind))
        for (unsigned j = 1; j <= 6; ++j)
        {
          p.fault_j = j; o.fault_j = j;
          RunResult r2;
          cfg->run (p, o, r2);
          if (! r2.fault_fired_second) { if (r2.failed) { record_failure (p, r2); g_current = 0; return false; } break; }
          ++st.faults_second;
          account (p, r2, true);
          if (r2.failed) { record_failure (p, r2); g_current = 0; return false; }
        }
    }
    g_current = 0;
    return true;
  }
};

// ---------------------------------------------------------------------- output
static std::string fp_path;

static void
write_stats (const std::string& path, const Checker& ck, const std::string& result, const std::string& replay_path,
             unsigned long long seed, double wall)
{
  std::ofstream f (path.c_str ());
  f << "{\n";
  f << " \"result\": \"" << result << "\",\n";
  f << " \"property\": \"" << ck.prop->name << "\", \"cfg\": \"" << ck.cfg->name << "\", \"seed\": " << seed << ", \"wall_s\": " << wall << ",\n";
  f << " \"cases\": " << ck.st.cases << ", \"executions\": " << ck.st.executions << ", \"steps\": " << ck.st.steps
    << ", \"skipped_ops\": " << ck.st.skipped << ",\n";
  f << " \"fault_points\": " << ck.st.fault_points << ", \"faults_injected\": " << ck.st.faults_injected
    << ", \"faults_second\": " << ck.st.faults_second << ", \"strong_checked\": " << ck.st.strong_checked << ",\n";
  f << " \"nontrivial_count\": " << ck.st.nontrivial.size () << ",\n";
  if (! fp_path.empty ())
  {
    std::ofstream fp (fp_path.c_str ());
    std::vector<unsigned long long> v (ck.st.nontrivial.begin (), ck.st.nontrivial.end ());
    std::sort (v.begin (), v.end ());
    for (std::size_t i = 0; i < v.size (); ++i) { char b[32]; std::snprintf (b, sizeof b, "%016llx\n", v[i]); fp << b; }
  }
  f << " \"classes\": {";
  { bool first = true; for (std::map<std::string, unsigned long long>::const_iterator it = ck.st.classes.begin (); it != ck.st.classes.end (); ++it) { f << (first ? "" : ", ") << "\"" << it->first << "\": " << it->second; first = false; } }
  f << "},\n \"fault_labels\": {";
  { bool first = true; for (std::map<std::string, unsigned long long>::const_iterator it = ck.st.fault_labels.begin (); it != ck.st.fault_labels.end (); ++it) { f << (first ? "" : ", ") << "\"" << it->first << "\": " << it->second; first = false; } }
  f << "},\n \"final_ops\": {";
  { bool first = true; for (std::map<std::string, unsigned long long>::const_iterator it = ck.st.final_ops.begin (); it != ck.st.final_ops.end (); ++it) { f << (first ? "" : ", ") << "\"" << it->first << "\": " << it->second; first = false; } }
  f << "},\n \"samples\": [";
  {
    std::vector<std::string> all = ck.st.nontrivial_samples;
    all.insert (all.end (), ck.st.samples.begin (), ck.st.samples.end ());
    for (std::size_t i = 0; i < all.size (); ++i) f << (i ? ", " : "") << "\"" << json_escape (all[i]) << "\"";
  }
  f << "],\n";
  if (ck.have_failure)
    f << " \"failure\": {\"clause\": \"" << json_escape (ck.failing_res.clause) << "\", \"detail\": \"" << json_escape (ck.failing_res.detail)
      << "\", \"op_index\": " << ck.failing_res.failing_op << ", \"final_op\": \"" << op_name (ck.failing_res.final_op_kind)
      << "\", \"fault_label\": \"" << fault_label_name (ck.failing_res.fault_label) << "\", \"replay\": \"" << json_escape (replay_path) << "\"},\n";
  f << " \"end\": true\n}\n";
}

static void
print_result (const Program& p, const RunResult& r)
{
  std::printf ("cfg=%s ops=%lu steps=%u skipped=%u flags=%#x digest=%016llx fault_points=%u fired=%d second=%d label=%s strong=%d\n",
               p.cfg.c_str (), static_cast<unsigned long> (p.ops.size ()), r.steps, r.skipped, r.flags, r.digest,
               r.fault_points, int (r.fault_fired), int (r.fault_fired_second), fault_label_name (r.fault_label), int (r.strong_expected));
  if (r.failed)
    std::printf ("FAIL clause=%s op_index=%d final_op=%s fault=%s detail=%s\n", r.clause.c_str (), r.failing_op,
                 op_name (r.final_op_kind), fault_label_name (r.fault_label), r.detail.c_str ());
  else
    std::printf ("PASS\n");
}

static double
now_s ()
{
  struct timespec ts;
  clock_gettime (CLOCK_MONOTONIC, &ts);
  return static_cast<double> (ts.tv_sec) + 1e-9 * static_cast<double> (ts.tv_nsec);
}

// replay one program file; returns 0 pass, 1 fail
static int
replay (const std::string& path, const std::string& prop_override, bool quiet)
{
  std::string text, err;
  if (! read_file (path.c_str (), text)) { std::fprintf (stderr, "cannot read %s\n", path.c_str ()); return 3; }
  Program p;
  if (! from_text (text, p, err)) { std::fprintf (stderr, "bad replay file: %s\n", err.c_str ()); return 3; }
  const std::string pn = prop_override.empty () ? p.property : prop_override;
  const PropSpec *ps = find_prop (pn);
  if (ps == 0) { std::fprintf (stderr, "unknown property %s\n", pn.c_str ()); return 3; }
  const ConfigEntry *cfg = find_config (p.cfg);
  if (cfg == 0) { std::fprintf (stderr, "unknown configuration %s\n", p.cfg.c_str ()); return 3; }
  RunOptions o; o.probes = ps->probes;
  o.small_only = (p.mode == "small");
  if (ps->fault || p.fault_k != 0) { o.fault_mode = true; o.fault_k = p.fault_k; o.fault_j = p.fault_j; o.fault_mask = ps->fault ? ps->fault_mask : MASK_ALL; }
  g_current = &p;
  RunResult r;
  cfg->run (p, o, r);
  if (! r.failed && p.mode == "twin" && cfg->twin[0] != 0)
  {
    const ConfigEntry *tw = find_config (cfg->twin);
    if (tw != 0)
    {
      Program q = p; q.cfg = tw->name;
      RunResult r2;
      tw->run (q, o, r2);
      if (r2.failed) r = r2;
      else if (r2.digest != r.digest) { r.failed = true; r.clause = "twin.trace_differs"; r.detail = "observation traces differ"; }
    }
  }
  g_current = 0;
  if (! quiet) print_result (p, r);
  return r.failed ? 1 : 0;
}

int
main (int argc, char **argv)
{
  std::set_terminate (on_terminate);
  std::signal (SIGSEGV, on_signal);
  std::signal (SIGABRT, on_signal);
  std::signal (SIGBUS, on_signal);
  std::signal (SIGFPE, on_signal);
  if (__sanitizer_set_death_callback) __sanitizer_set_death_callback (dump_current_case);

  std::string prop, cfgname, out, replay_out, replay_path, mode, emit_path;
  unsigned long long seed = 1;
  unsigned cases = 1000, max_len = 60, max_size = 96;
  bool list = false, force_fault = false;
  for (int i = 1; i < argc; ++i)
  {
    const std::string a = argv[i];
    const char *next = (i + 1 < argc) ? argv[i + 1] : "";
    if (a == "--prop") { prop = next; ++i; }
    else if (a == "--cfg") { cfgname = next; ++i; }
    else if (a == "--out") { out = next; ++i; }
    else if (a == "--replay-out") { replay_out = next; ++i; }
    else if (a == "--crash-out") { g_crash_path = next; ++i; }
    else if (a == "--replay") { replay_path = next; ++i; }
    else if (a == "--mode") { mode = next; ++i; }
    else if (a == "--seed") { seed = std::strtoull (next, 0, 10); ++i; }
    else if (a == "--cases") { cases = static_cast<unsigned> (std::atoi (next)); ++i; }
    else if (a == "--max-len") { max_len = static_cast<unsigned> (std::atoi (next)); ++i; }
    else if (a == "--max-size") { max_size = static_cast<unsigned> (std::atoi (next)); ++i; }
    else if (a == "--emit") { emit_path = next; ++i; }
    else if (a == "--fp-out") { fp_path = next; ++i; }
    else if (a == "--list") list = true;
    else if (a == "--fault") force_fault = true;
    else { std::fprintf (stderr, "unknown argument %s\n", a.c_str ()); return 3; }
  }
  if (list)
  {
    for (std::size_t i = 0; i < configs ().size (); ++i)
    {
      const ConfigEntry& c = configs ()[i];
      std::printf ("%s flavour=%s N=%u M=%u alloc=%s copyable=%d tracked_elems=%d tracked_alloc=%d twin=%s\n",
                   c.name, c.flavour, c.n, c.m, c.alloc, int (c.copyable), int (c.tracked_elems), int (c.tracked_alloc), c.twin);
    }
    return 0;
  }
  if (! replay_path.empty ())
    return replay (replay_path, prop, false);

  const PropSpec *ps0 = find_prop (prop);
  if (ps0 == 0) { std::fprintf (stderr, "unknown or missing --prop\n"); return 3; }
  PropSpec forced = *ps0;
  if (force_fault) { forced.fault = true; forced.fault_mask = MASK_ALL; }
  const PropSpec *ps = &forced;
  const ConfigEntry *cfg = find_config (cfgname);
  if (cfg == 0) { std::fprintf (stderr, "unknown or missing --cfg\n"); return 3; }
  if (seed == 0) seed = 1;

  Checker ck;
  ck.prop = ps; ck.cfg = cfg; ck.mode = mode;
  ck.base.probes = ps->probes; ck.base.max_size = max_size; ck.base.small_only = (mode == "small");
  if (std::string (ps->name) == "C13" && cfg->twin[0] != 0) ck.twin = find_config (cfg->twin);

  const double t0 = now_s ();
  Weights ws = profile_weights (ps->profile);
  if (mode == "small")
  {
    // every op kind still occurs, but only single-container ones matter
    Weights w2;
    for (std::size_t i = 0; i < ws.size (); ++i) if (! op_needs_source (ws[i].second) && op_group (ws[i].second) != 'M') w2.push_back (ws[i]);
    ws = w2;
  }
  rc::Gen<std::vector<Op> > gen_ops = rc::gen::container<std::vector<Op> > (gen_op (ws));

  // final operations for the fault engine are drawn from the property's own list
  Weights final_ws;
  if (ps->fault)
  {
    static const int c05_ops[] = { OP_push_back_copy, OP_push_back_rv, OP_emplace_back, OP_insert_copy, OP_insert_rv, OP_insert_count,
                                   OP_insert_range, OP_insert_ilist, OP_emplace, OP_reserve, OP_resize, OP_resize_value, OP_shrink_to_fit,
                                   OP_append_range, OP_append_ilist, OP_append_copy, OP_append_move, OP_push_back_alias, OP_emplace_back_alias,
                                   OP_resize_alias, OP_insert_alias };
    if (std::string (ps->name) == "C05")
      for (unsigned i = 0; i < sizeof c05_ops / sizeof c05_ops[0]; ++i) final_ws.push_back (std::make_pair (10u, c05_ops[i]));
    else
      for (int k = 0; k < OP_COUNT; ++k)
      {
        const char g = op_group (k);
        if (g == 'M' || g == 'O') continue;
        final_ws.push_back (std::make_pair ((g == 'W' || g == 'C') ? 14u : 10u, k));
      }
  }

  char params[160];
  std::snprintf (params, sizeof params, "seed=%llu max_success=%u max_size=%u max_discard_ratio=50 noshrink=0", seed, cases, max_len);
  setenv ("RC_PARAMS", params, 1);

  if (! emit_path.empty ())
  {
    std::ofstream ef (emit_path.c_str ());
    unsigned emitted = 0;
    rc::check ("emit corpus", [&] () {
      const std::vector<Op> ops = *gen_ops;
      if (ops.size () < 3) return;
      Program p; p.cfg = cfg->name; p.ops = ops; p.property = ps->name;
      ef << to_text (p) << "\n";
      ++emitted;
    });
    std::printf ("emitted %u programs\n", emitted);
    return 0;
  }
  bool ok;
  if (! ps->fault)
    ok = rc::check (std::string (ps->name) + " on " + cfg->name, [&] () {
      const std::vector<Op> ops = *gen_ops;
      ++ck.st.cases;
      const bool good = ck.check_history (ops);
      if (! good) RC_FAIL (ck.failing_res.clause + ": " + ck.failing_res.detail);
    });
  else
  {
    rc::Gen<Op> gen_final = gen_op (final_ws);
    ok = rc::check (std::string (ps->name) + " (fault engine) on " + cfg->name, [&] () {
      std::vector<Op> ops = *gen_ops;
      if (ops.size () > 25) ops.resize (25);
      ops.push_back (*gen_final);
      ++ck.st.cases;
      const bool good = ck.check_faults (ops);
      if (! good) RC_FAIL (ck.failing_res.clause + ": " + ck.failing_res.detail);
    });
  }
  const double wall = now_s () - t0;
  std::string result = ok ? "pass" : "fail";
  if (! ok && ! ck.have_failure) result = "error";   // rapidcheck gave up for a reason of its own
  if (ck.have_failure && ! replay_out.empty ())
    write_file (replay_out.c_str (), to_text (ck.failing));
  if (! out.empty ()) write_stats (out, ck, result, replay_out, seed, wall);
  if (ck.have_failure)
  {
    std::printf ("FAILURE property=%s cfg=%s clause=%s detail=%s\n", ps->name, cfg->name, ck.failing_res.clause.c_str (), ck.failing_res.detail.c_str ());
    std::printf ("%s", to_text (ck.failing).c_str ());
    return 1;
  }
  return ok ? 0 : 2;
}
