// hist_main.cpp -- rapidcheck driver, replay runner and fault enumerator for the program
// interpreter.  This is the only translation unit that includes rapidcheck; it does not
// include small_vector.hpp.  Configurations are linked in from their own TUs.
#include "checker.hpp"

#include <rapidcheck.h>

#include <algorithm>
#include <csignal>
#include <cstdio>
#include <cstdlib>
#include <cstring>
#include <exception>
#include <fstream>
#include <map>
#include <set>
#include <string>
#include <unistd.h>
#include <unordered_set>
#include <vector>

extern "C" void __sanitizer_set_death_callback (void (*) (void)) __attribute__ ((weak));

// ---------------------------------------------------------------------- generator profiles
typedef std::vector<std::pair<unsigned, int> > Weights;

static Weights
profile_weights (const std::string& prof)
{
  // base weights per group
  unsigned g = 33, s = 19, w = 15, c = 10, o = 9, a = 5, m = 9;
  if (prof == "whole")   { g = 22; s = 10; w = 36; c = 16; o = 4;  a = 0;  m = 12; }
  if (prof == "grow")    { g = 50; s = 18; w = 10; c = 6;  o = 2;  a = 4;  m = 10; }
  if (prof == "alias")   { g = 20; s = 12; w = 6;  c = 6;  o = 2;  a = 44; m = 10; }
  if (prof == "input")   { g = 30; s = 14; w = 20; c = 16; o = 2;  a = 0;  m = 8;  }
  if (prof == "compare") { g = 30; s = 22; w = 12; c = 8;  o = 20; a = 0;  m = 8;  }
  std::map<char, unsigned> gw; gw['G'] = g; gw['S'] = s; gw['W'] = w; gw['C'] = c; gw['O'] = o; gw['A'] = a; gw['M'] = m;
  std::map<char, unsigned> cnt;
  for (int k = 0; k < OP_COUNT; ++k) ++cnt[op_group (k)];
  Weights out;
  for (int k = 0; k < OP_COUNT; ++k)
  {
    const char grp = op_group (k);
    unsigned wt = gw[grp] * 100u / cnt[grp];
    if (prof == "input" && (k == OP_insert_range || k == OP_assign_range || k == OP_append_range || k == OP_ctor_range || k == OP_ctor_gen)) wt *= 6;
    if (prof == "compare" && (k == OP_compare || k == OP_nm_erase || k == OP_nm_erase_if || k == OP_observe)) wt *= 5;
    if (prof == "grow" && (k == OP_reserve || k == OP_fill_to_capacity)) wt *= 2;
    if (wt != 0) out.push_back (std::make_pair (wt, k));
  }
  return out;
}

static rc::Gen<int>
gen_kind (const Weights& ws)
{
  unsigned total = 0;
  for (std::size_t i = 0; i < ws.size (); ++i) total += ws[i].first;
  Weights copy = ws;
  return rc::gen::map (rc::gen::resize (rc::kNominalSize, rc::gen::inRange<unsigned> (0, total)),
                       [copy] (unsigned r) {
                         for (std::size_t i = 0; i < copy.size (); ++i)
                         {
                           if (r < copy[i].first) return copy[i].second;
                           r -= copy[i].first;
                         }
                         return copy.back ().second;
                       });
}

static rc::Gen<Op>
gen_op (const Weights& ws)
{
  rc::Gen<int> byte = rc::gen::resize (rc::kNominalSize, rc::gen::inRange<int> (0, 256));
  return rc::gen::map (rc::gen::tuple (gen_kind (ws), byte, byte, byte, byte, byte, byte),
                       [] (const std::tuple<int, int, int, int, int, int, int>& x) {
                         Op o;
                         o.kind = static_cast<unsigned char> (std::get<0> (x));
                         o.t = static_cast<unsigned char> (std::get<1> (x) & 3);
                         o.s = static_cast<unsigned char> (std::get<2> (x) & 3);
                         o.a = static_cast<unsigned char> (std::get<3> (x));
                         o.b = static_cast<unsigned char> (std::get<4> (x));
                         o.c = static_cast<unsigned char> (std::get<5> (x));
                         o.d = static_cast<unsigned char> (std::get<6> (x));
                         return o;
                       });
}

namespace rc
{
  template <> struct Arbitrary<Op> { static Gen<Op> arbitrary () { return gen_op (profile_weights ("mix")); } };
  void showValue (const Op& o, std::ostream& os)
  {
    os << op_name (o.kind) << "(t=" << unsigned (o.t) << ",s=" << unsigned (o.s) << ",a=" << unsigned (o.a)
       << ",b=" << unsigned (o.b) << ",c=" << unsigned (o.c) << ",d=" << unsigned (o.d) << ")";
  }
}

// ---------------------------------------------------------------------- crash bookkeeping
static std::string    g_crash_path;

static void
dump_current_case ()
{
  if (g_current == 0 || g_crash_path.empty ()) return;
  static bool done = false;
  if (done) return;
  done = true;
  write_file (g_crash_path.c_str (), to_text (*g_current));
}

static void
on_terminate ()
{
  dump_current_case ();
  std::fprintf (stderr, "VERIF-TERMINATE: std::terminate was called\n");
  std::_Exit (78);
}

static void
on_signal (int sig)
{
  dump_current_case ();
  std::fprintf (stderr, "VERIF-SIGNAL: %d\n", sig);
  std::_Exit (79);
}

// ---------------------------------------------------------------------- output
static std::string fp_path;

static void
write_stats (const std::string& path, const Checker& ck, const std::string& result, const std::string& replay_path,
             unsigned long long seed, double wall)
{
  std::ofstream f (path.c_str ());
  f << "{\n";
  f << " \"result\": \"" << result << "\",\n";
  f << " \"property\": \"" << ck.prop->name << "\", \"cfg\": \"" << ck.cfg->name << "\", \"seed\": " << seed << ", \"wall_s\": " << wall << ",\n";
  f << " \"cases\": " << ck.st.cases << ", \"executions\": " << ck.st.executions << ", \"steps\": " << ck.st.steps
    << ", \"skipped_ops\": " << ck.st.skipped << ",\n";
  f << " \"fault_points\": " << ck.st.fault_points << ", \"faults_injected\": " << ck.st.faults_injected
    << ", \"faults_second\": " << ck.st.faults_second << ", \"strong_checked\": " << ck.st.strong_checked << ",\n";
  f << " \"nontrivial_count\": " << ck.st.nontrivial.size () << ",\n";
  if (! fp_path.empty ())
  {
    std::ofstream fp (fp_path.c_str ());
    std::vector<unsigned long long> v (ck.st.nontrivial.begin (), ck.st.nontrivial.end ());
    std::sort (v.begin (), v.end ());
    for (std::size_t i = 0; i < v.size (); ++i) { char b[32]; std::snprintf (b, sizeof b, "%016llx\n", v[i]); fp << b; }
  }
  f << " \"classes\": {";
  { bool first = true; for (std::map<std::string, unsigned long long>::const_iterator it = ck.st.classes.begin (); it != ck.st.classes.end (); ++it) { f << (first ? "" : ", ") << "\"" << it->first << "\": " << it->second; first = false; } }
  f << "},\n \"fault_labels\": {";
  { bool first = true; for (std::map<std::string, unsigned long long>::const_iterator it = ck.st.fault_labels.begin (); it != ck.st.fault_labels.end (); ++it) { f << (first ? "" : ", ") << "\"" << it->first << "\": " << it->second; first = false; } }
  f << "},\n \"final_ops\": {";
  { bool first = true; for (std::map<std::string, unsigned long long>::const_iterator it = ck.st.final_ops.begin (); it != ck.st.final_ops.end (); ++it) { f << (first ? "" : ", ") << "\"" << it->first << "\": " << it->second; first = false; } }
  f << "},\n \"samples\": [";
  {
    std::vector<std::string> all = ck.st.nontrivial_samples;
    all.insert (all.end (), ck.st.samples.begin (), ck.st.samples.end ());
    for (std::size_t i = 0; i < all.size (); ++i) f << (i ? ", " : "") << "\"" << json_escape (all[i]) << "\"";
  }
  f << "],\n";
  if (ck.have_failure)
    f << " \"failure\": {\"clause\": \"" << json_escape (ck.failing_res.clause) << "\", \"detail\": \"" << json_escape (ck.failing_res.detail)
      << "\", \"op_index\": " << ck.failing_res.failing_op << ", \"final_op\": \"" << op_name (ck.failing_res.final_op_kind)
      << "\", \"fault_label\": \"" << fault_label_name (ck.failing_res.fault_label) << "\", \"replay\": \"" << json_escape (replay_path) << "\"},\n";
  f << " \"end\": true\n}\n";
}

static void
print_result (const Program& p, const RunResult& r)
{
  std::printf ("cfg=%s ops=%lu steps=%u skipped=%u flags=%#x digest=%016llx fault_points=%u fired=%d second=%d label=%s strong=%d\n",
               p.cfg.c_str (), static_cast<unsigned long> (p.ops.size ()), r.steps, r.skipped, r.flags, r.digest,
               r.fault_points, int (r.fault_fired), int (r.fault_fired_second), fault_label_name (r.fault_label), int (r.strong_expected));
  if (r.failed)
    std::printf ("FAIL clause=%s op_index=%d final_op=%s fault=%s detail=%s\n", r.clause.c_str (), r.failing_op,
                 op_name (r.final_op_kind), fault_label_name (r.fault_label), r.detail.c_str ());
  else
    std::printf ("PASS\n");
}

static double
now_s ()
{
  struct timespec ts;
  clock_gettime (CLOCK_MONOTONIC, &ts);
  return static_cast<double> (ts.tv_sec) + 1e-9 * static_cast<double> (ts.tv_nsec);
}

// replay one program file; returns 0 pass, 1 fail
static int
replay (const std::string& path, const std::string& prop_override, bool quiet)
{
  std::string text, err;
  if (! read_file (path.c_str (), text)) { std::fprintf (stderr, "cannot read %s\n", path.c_str ()); return 3; }
  Program p;
  if (! from_text (text, p, err)) { std::fprintf (stderr, "bad replay file: %s\n", err.c_str ()); return 3; }
  const std::string pn = prop_override.empty () ? p.property : prop_override;
  const PropSpec *ps = find_prop (pn);
  if (ps == 0) { std::fprintf (stderr, "unknown property %s\n", pn.c_str ()); return 3; }
  const ConfigEntry *cfg = find_config (p.cfg);
  if (cfg == 0) { std::fprintf (stderr, "unknown configuration %s\n", p.cfg.c_str ()); return 3; }
  RunOptions o; o.probes = ps->probes;
  o.small_only = (p.mode == "small");
  if (p.mode.compare (0, 5, "long:") == 0) o.long_n = std::strtoul (p.mode.c_str () + 5, 0, 10);
  if (ps->fault || p.fault_k != 0) { o.fault_mode = true; o.fault_k = p.fault_k; o.fault_j = p.fault_j; o.fault_mask = ps->fault ? ps->fault_mask : MASK_ALL; }
  g_current = &p;
  RunResult r;
  cfg->run (p, o, r);
  if (! r.failed && p.mode == "twin" && cfg->twin[0] != 0)
  {
    const ConfigEntry *tw = find_config (cfg->twin);
    if (tw != 0)
    {
      Program q = p; q.cfg = tw->name;
      RunResult r2;
      tw->run (q, o, r2);
      if (r2.failed) r = r2;
      else if (r2.digest != r.digest) { r.failed = true; r.clause = "twin.trace_differs"; r.detail = "observation traces differ"; }
    }
  }
  g_current = 0;
  if (! quiet) print_result (p, r);
  return r.failed ? 1 : 0;
}

int
main (int argc, char **argv)
{
  std::set_terminate (on_terminate);
  std::signal (SIGSEGV, on_signal);
  std::signal (SIGABRT, on_signal);
  std::signal (SIGBUS, on_signal);
  std::signal (SIGFPE, on_signal);
  if (__sanitizer_set_death_callback) __sanitizer_set_death_callback (dump_current_case);

  std::string prop, cfgname, out, replay_out, replay_path, mode, emit_path;
  unsigned long long seed = 1;
  unsigned cases = 1000, max_len = 60, max_size = 96;
  bool list = false, force_fault = false;
  for (int i = 1; i < argc; ++i)
  {
    const std::string a = argv[i];
    const char *next = (i + 1 < argc) ? argv[i + 1] : "";
    if (a == "--prop") { prop = next; ++i; }
    else if (a == "--cfg") { cfgname = next; ++i; }
    else if (a == "--out") { out = next; ++i; }
    else if (a == "--replay-out") { replay_out = next; ++i; }
    else if (a == "--crash-out") { g_crash_path = next; ++i; }
    else if (a == "--replay") { replay_path = next; ++i; }
    else if (a == "--mode") { mode = next; ++i; }
    else if (a == "--seed") { seed = std::strtoull (next, 0, 10); ++i; }
    else if (a == "--cases") { cases = static_cast<unsigned> (std::atoi (next)); ++i; }
    else if (a == "--max-len") { max_len = static_cast<unsigned> (std::atoi (next)); ++i; }
    else if (a == "--max-size") { max_size = static_cast<unsigned> (std::atoi (next)); ++i; }
    else if (a == "--emit") { emit_path = next; ++i; }
    else if (a == "--fp-out") { fp_path = next; ++i; }
    else if (a == "--list") list = true;
    else if (a == "--fault") force_fault = true;
    else { std::fprintf (stderr, "unknown argument %s\n", a.c_str ()); return 3; }
  }
  if (list)
  {
    for (std::size_t i = 0; i < configs ().size (); ++i)
    {
      const ConfigEntry& c = configs ()[i];
      std::printf ("%s flavour=%s N=%u M=%u alloc=%s copyable=%d tracked_elems=%d tracked_alloc=%d twin=%s\n",
                   c.name, c.flavour, c.n, c.m, c.alloc, int (c.copyable), int (c.tracked_elems), int (c.tracked_alloc), c.twin);
    }
    return 0;
  }
  if (! replay_path.empty ())
    return replay (replay_path, prop, false);

  const PropSpec *ps0 = find_prop (prop);
  if (ps0 == 0) { std::fprintf (stderr, "unknown or missing --prop\n"); return 3; }
  PropSpec forced = *ps0;
  if (force_fault) { forced.fault = true; forced.fault_mask = MASK_ALL; }
  const PropSpec *ps = &forced;
  const ConfigEntry *cfg = find_config (cfgname);
  if (cfg == 0) { std::fprintf (stderr, "unknown or missing --cfg\n"); return 3; }
  if (seed == 0) seed = 1;

  Checker ck;
  ck.prop = ps; ck.cfg = cfg; ck.mode = mode;
  ck.base.probes = ps->probes; ck.base.max_size = max_size; ck.base.small_only = (mode == "small");
  if (std::string (ps->name) == "C13" && cfg->twin[0] != 0) ck.twin = find_config (cfg->twin);

  const double t0 = now_s ();
  Weights ws = profile_weights (ps->profile);
  if (mode == "small")
  {
    // every op kind still occurs, but only single-container ones matter
    Weights w2;
    for (std::size_t i = 0; i < ws.size (); ++i) if (! op_needs_source (ws[i].second) && op_group (ws[i].second) != 'M') w2.push_back (ws[i]);
    ws = w2;
  }
  rc::Gen<std::vector<Op> > gen_ops = rc::gen::container<std::vector<Op> > (gen_op (ws));

  // final operations for the fault engine are drawn from the property's own list
  Weights final_ws;
  if (ps->fault)
  {
    static const int c05_ops[] = { OP_push_back_copy, OP_push_back_rv, OP_emplace_back, OP_insert_copy, OP_insert_rv, OP_insert_count,
                                   OP_insert_range, OP_insert_ilist, OP_emplace, OP_reserve, OP_resize, OP_resize_value, OP_shrink_to_fit,
                                   OP_append_range, OP_append_ilist, OP_append_copy, OP_append_move, OP_push_back_alias, OP_emplace_back_alias,
                                   OP_resize_alias, OP_insert_alias };
    if (std::string (ps->name) == "C05")
      for (unsigned i = 0; i < sizeof c05_ops / sizeof c05_ops[0]; ++i) final_ws.push_back (std::make_pair (10u, c05_ops[i]));
    else
      for (int k = 0; k < OP_COUNT; ++k)
      {
        const char g = op_group (k);
        if (g == 'M' || g == 'O') continue;
        final_ws.push_back (std::make_pair ((g == 'W' || g == 'C') ? 14u : 10u, k));
      }
  }

  char params[160];
  std::snprintf (params, sizeof params, "seed=%llu max_success=%u max_size=%u max_discard_ratio=50 noshrink=0", seed, cases, max_len);
  setenv ("RC_PARAMS", params, 1);

  if (! emit_path.empty ())
  {
    std::ofstream ef (emit_path.c_str ());
    unsigned emitted = 0;
    rc::check ("emit corpus", [&] () {
      const std::vector<Op> ops = *gen_ops;
      if (ops.size () < 3) return;
      Program p; p.cfg = cfg->name; p.ops = ops; p.property = ps->name;
      ef << to_text (p) << "\n";
      ++emitted;
    });
    std::printf ("emitted %u programs\n", emitted);
    return 0;
  }
  bool ok;
  if (! ps->fault)
    ok = rc::check (std::string (ps->name) + " on " + cfg->name, [&] () {
      std::vector<Op> ops = *gen_ops;
      if (mode == "long")
      {
        // n log-uniform in [10, 4e6]; the prefix is kept short
        const int e = *rc::gen::resize (rc::kNominalSize, rc::gen::inRange (0, 1000));
        double n = 10.0;
        for (int k = 0; k < e; ++k) n *= 1.01299;      // 1.01299^1000 ~ 4e5
        ck.long_n = static_cast<unsigned long> (n);
        if (ops.size () > 12) ops.resize (12);
      }
      ++ck.st.cases;
      const bool good = ck.check_history (ops);
      if (! good) RC_FAIL (ck.failing_res.clause + ": " + ck.failing_res.detail);
    });
  else
  {
    rc::Gen<Op> gen_final = gen_op (final_ws);
    ok = rc::check (std::string (ps->name) + " (fault engine) on " + cfg->name, [&] () {
      std::vector<Op> ops = *gen_ops;
      if (ops.size () > 25) ops.resize (25);
      ops.push_back (*gen_final);
      ++ck.st.cases;
      const bool good = ck.check_faults (ops);
      if (! good) RC_FAIL (ck.failing_res.clause + ": " + ck.failing_res.detail);
    });
  }
  const double wall = now_s () - t0;
  std::string result = ok ? "pass" : "fail";
  if (! ok && ! ck.have_failure) result = "error";   // rapidcheck gave up for a reason of its own
  if (ck.have_failure && ! replay_out.empty ())
    write_file (replay_out.c_str (), to_text (ck.failing));
  if (! out.empty ()) write_stats (out, ck, result, replay_out, seed, wall);
  if (ck.have_failure)
  {
    std::printf ("FAILURE property=%s cfg=%s clause=%s detail=%s\n", ps->name, cfg->name, ck.failing_res.clause.c_str (), ck.failing_res.detail.c_str ());
    std::printf ("%s", to_text (ck.failing).c_str ());
    return 1;
  }
  return ok ? 0 : 2;
}
