// iters.hpp -- instrumented iterators and generator (DESIGN.md §2.4).  C++11-clean.
#ifndef VH_ITERS_HPP
#define VH_ITERS_HPP

#include "core.hpp"

#include <cstddef>
#include <iterator>
#include <type_traits>
#include <vector>

namespace vh
{

  // What a misused iterator hands out after the misuse has been recorded: zeroed storage that is
  // never a live element (the range may be empty, i.e. have no base object to fall back on).
  template <typename T>
  inline T&
  dead_object ()
  {
    static typename std::aligned_storage<sizeof (T), alignof (T)>::type raw[1] = { };
    return *reinterpret_cast<T *> (static_cast<void *> (raw));
  }

  // ------------------------------------------------------------------ single-pass stream
  // All copies share one cursor, like istream_iterator.  Traps (recorded failures):
  //   deref of a position twice, ++ past a never-dereferenced position, use of a stale
  //   copy, any deref / ++ at or past `last`.
  struct StreamState
  {
    std::size_t                 n;
    std::size_t                 cursor;
    std::vector<unsigned char>  derefs;
    std::vector<unsigned char>  incs;
    bool                        faults;     // eligible for fault injection
    StreamState () : n (0), cursor (0), faults (true) { }
    void init (std::size_t len) { n = len; cursor = 0; derefs.assign (len, 0); incs.assign (len, 0); }

    // called after the operation returned normally
    void check_fully_consumed (const char *what) const
    {
      if (cursor != n)
        fail ("input.not_consumed", "%s: single-pass range of %lu elements, cursor stopped at %lu",
              what, static_cast<unsigned long> (n), static_cast<unsigned long> (cursor));
      for (std::size_t i = 0; i < n; ++i)
        if (derefs[i] != 1 || incs[i] != 1)
        {
          fail ("input.count", "%s: position %lu was dereferenced %u times and incremented %u times (want 1/1)",
                what, static_cast<unsigned long> (i), unsigned (derefs[i]), unsigned (incs[i]));
          break;
        }
    }
  };

  template <typename T>
  class StreamIt
  {
  public:
    typedef std::input_iterator_tag iterator_category;
    typedef T                       value_type;
    typedef std::ptrdiff_t          difference_type;
    typedef T *                     pointer;
    typedef T&                      reference;

    struct Proxy
    {
      T *p; StreamState *st; std::size_t pos;
      T& operator* () const
      {
        if (p == 0 || pos >= st->n)
        {
          fail ("input.deref_past_end", "the result of it++ on a single-pass iterator at/past last was dereferenced");
          return dead_object<T> ();
        }
        if (st->derefs[pos] < 250) ++st->derefs[pos];
        if (st->derefs[pos] > 1)
          fail ("input.double_deref", "position %lu of a single-pass range was dereferenced twice", static_cast<unsigned long> (pos));
        return *p;
      }
    };

    StreamIt () : m_base (0), m_st (0), m_pos (0), m_end (true) { }
    StreamIt (T *base, StreamState *st, bool end) : m_base (base), m_st (st), m_pos (0), m_end (end) { }

    T&
    operator* () const
    {
      if (m_end)
      {
        fail ("input.deref_end", "the end iterator of a single-pass range was dereferenced");
        return dead_object<T> ();
      }
      if (m_st->faults) fault_point (F_IT_DEREF);
      if (m_pos != m_st->cursor)
      {
        fail ("input.stale_copy", "a stale copy (position %lu) of a single-pass iterator was dereferenced after the stream advanced to %lu",
              static_cast<unsigned long> (m_pos), static_cast<unsigned long> (m_st->cursor));
        return (m_base != 0 && m_pos < m_st->n) ? m_base[m_pos] : dead_object<T> ();
      }
      if (m_st->cursor >= m_st->n)
      {
        fail ("input.deref_past_end", "single-pass iterator dereferenced at/past last (position %lu of %lu)",
              static_cast<unsigned long> (m_st->cursor), static_cast<unsigned long> (m_st->n));
        return dead_object<T> ();
      }
      if (m_st->derefs[m_pos] < 250) ++m_st->derefs[m_pos];
      if (m_st->derefs[m_pos] > 1)
        fail ("input.double_deref", "position %lu of a single-pass range was dereferenced twice", static_cast<unsigned long> (m_pos));
      return m_base[m_pos];
    }

    T *operator-> () const { return &**this; }

    StreamIt&
    operator++ ()
    {
      advance ();
      return *this;
    }

    Proxy
    operator++ (int)
    {
      Proxy pr = { m_base + (m_pos < m_st->n ? m_pos : 0), m_st, m_pos < m_st->n ? m_pos : 0 };
      advance ();
      return pr;
    }

    friend bool
    operator== (const StreamIt& a, const StreamIt& b)
    {
      // once a violation has been recorded the range reads as exhausted, so that a library
      // loop driven by a misused iterator terminates and the failure can be reported
      if (failure ().set) return true;
      if (a.m_end && b.m_end) return true;
      if (a.m_end) return b.m_st->cursor >= b.m_st->n;
      if (b.m_end) return a.m_st->cursor >= a.m_st->n;
      return a.m_pos == b.m_pos;
    }

    friend bool operator!= (const StreamIt& a, const StreamIt& b) { return ! (a == b); }

  private:
    void
    advance ()
    {
      if (m_end)
      {
        fail ("input.inc_end", "the end iterator of a single-pass range was incremented");
        return;
      }
      if (m_st->faults) fault_point (F_IT_INC);
      if (m_pos != m_st->cursor)
      {
        fail ("input.stale_copy", "a stale copy (position %lu) of a single-pass iterator was incremented after the stream advanced to %lu",
              static_cast<unsigned long> (m_pos), static_cast<unsigned long> (m_st->cursor));
        return;
      }
      if (m_st->cursor >= m_st->n)
      {
        fail ("input.inc_past_end", "single-pass iterator incremented at/past last");
        return;
      }
      if (m_st->derefs[m_pos] == 0)
        fail ("input.skipped", "position %lu of a single-pass range was stepped over without being read", static_cast<unsigned long> (m_pos));
      if (m_st->incs[m_pos] < 250) ++m_st->incs[m_pos];
      ++m_st->cursor;
      ++m_pos;
    }

    T           *m_base;
    StreamState *m_st;
    std::size_t  m_pos;
    bool         m_end;
  };

  // ------------------------------------------------------------------ multi-pass, position-checked
  struct WalkState
  {
    std::size_t        n;
    unsigned long long steps;
    unsigned long long derefs;
    bool               faults;
    WalkState () : n (0), steps (0), derefs (0), faults (true) { }
  };

  template <typename T, typename Category>
  class CheckedIt
  {
  public:
    typedef Category        iterator_category;
    typedef T               value_type;
    typedef std::ptrdiff_t  difference_type;
    typedef T *             pointer;
    typedef T&              reference;

    CheckedIt () : m_base (0), m_st (0), m_pos (0) { }
    CheckedIt (T *base, WalkState *st, std::ptrdiff_t pos) : m_base (base), m_st (st), m_pos (pos) { }

    T&
    operator* () const
    {
      if (m_st->faults) fault_point (F_IT_DEREF);
      ++m_st->derefs;
      if (m_pos < 0 || static_cast<std::size_t> (m_pos) >= m_st->n)
      {
        fail ("range.deref_outside", "multi-pass iterator dereferenced at %ld outside [0, %lu)", static_cast<long> (m_pos), static_cast<unsigned long> (m_st->n));
        return dead_object<T> ();
      }
      return m_base[m_pos];
    }
    T *operator-> () const { return &**this; }

    CheckedIt& operator++ () { step (1); return *this; }
    CheckedIt  operator++ (int) { CheckedIt t (*this); step (1); return t; }
    CheckedIt& operator-- () { step (-1); return *this; }
    CheckedIt  operator-- (int) { CheckedIt t (*this); step (-1); return t; }
    CheckedIt& operator+= (difference_type d) { step (d); return *this; }
    CheckedIt& operator-= (difference_type d) { step (-d); return *this; }
    CheckedIt  operator+ (difference_type d) const { CheckedIt t (*this); t.step (d); return t; }
    CheckedIt  operator- (difference_type d) const { CheckedIt t (*this); t.step (-d); return t; }
    friend CheckedIt operator+ (difference_type d, const CheckedIt& it) { return it + d; }
    difference_type operator- (const CheckedIt& o) const { return m_pos - o.m_pos; }
    T& operator[] (difference_type d) const { return *(*this + d); }

    friend bool operator== (const CheckedIt& a, const CheckedIt& b) { return failure ().set || a.m_pos == b.m_pos; }
    friend bool operator!= (const CheckedIt& a, const CheckedIt& b) { return ! (a == b); }
    friend bool operator<  (const CheckedIt& a, const CheckedIt& b) { return a.m_pos <  b.m_pos; }
    friend bool operator>  (const CheckedIt& a, const CheckedIt& b) { return a.m_pos >  b.m_pos; }
    friend bool operator<= (const CheckedIt& a, const CheckedIt& b) { return a.m_pos <= b.m_pos; }
    friend bool operator>= (const CheckedIt& a, const CheckedIt& b) { return a.m_pos >= b.m_pos; }

  private:
    void
    step (difference_type d)
    {
      if (m_st->faults) fault_point (F_IT_INC);
      ++m_st->steps;
      const std::ptrdiff_t np = m_pos + d;
      if (np < 0 || static_cast<std::size_t> (np) > m_st->n)
      {
        fail ("range.walk_outside", "multi-pass iterator stepped to %ld outside [0, %lu]", static_cast<long> (np), static_cast<unsigned long> (m_st->n));
        return;
      }
      m_pos = np;
    }

    T              *m_base;
    WalkState      *m_st;
    std::ptrdiff_t  m_pos;
  };

  // ------------------------------------------------------------------ generator
  struct GenLog
  {
    unsigned calls;
    GenLog () : calls (0) { }
  };

  template <typename E>
  struct Gen
  {
    GenLog *log;
    int     base;
    E operator() ()
    {
      fault_point (F_GEN);
      const int i = static_cast<int> (log->calls++);
      return E (base + i, HarnessTag ());
    }
  };

} // namespace vh

#endif
