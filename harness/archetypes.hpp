// archetypes.hpp -- C13 (part 3): minimal-requirement element types in a trivially
// copyable (-DTRIVIAL) and a non-trivial version.  The fast paths must add no requirement:
// whatever compiles with the non-trivial twin must compile with the trivial one.
#include <gch/small_vector.hpp>
#include <utility>
#include <vector>
#ifdef TRIVIAL
#  define ARCH_DEFAULT(Name)  Name () = default;
#  define ARCH_COPY(Name)     Name (const Name&) = default;
#  define ARCH_MOVE(Name)     Name (Name&&) = default;
#else
#  define ARCH_DEFAULT(Name)  Name () : v (0) { }
#  define ARCH_COPY(Name)     Name (const Name& o) : v (o.v) { }
#  define ARCH_MOVE(Name)     Name (Name&& o) noexcept : v (o.v) { }
#endif
// A1: default- and copy-constructible, copy assignment deleted
struct A1 { int v; ARCH_DEFAULT (A1) explicit A1 (int x) : v (x) { } ARCH_COPY (A1) A1& operator= (const A1&) = delete; };
// A2: unary operator& deleted
struct A2 { int v; ARCH_DEFAULT (A2) explicit A2 (int x) : v (x) { } ARCH_COPY (A2) A2& operator= (const A2&) = default; void operator& () const = delete; };
// A3: const data member (not assignable)
struct A3 { const int v; A3 () : v (0) { } explicit A3 (int x) : v (x) { } ARCH_COPY (A3) };
// A4: move-only, move assignment deleted
struct A4 { int v; ARCH_DEFAULT (A4) explicit A4 (int x) : v (x) { } A4 (const A4&) = delete; ARCH_MOVE (A4) A4& operator= (A4&&) = delete; };
// A5: overloaded (non-deleted) unary operator& returning something else
struct A5 { int v; ARCH_DEFAULT (A5) explicit A5 (int x) : v (x) { } ARCH_COPY (A5) A5& operator= (const A5&) = default; int operator& () const { return 0; } };
// A6: copyable and assignable, but not default constructible
struct A6 { int v; explicit A6 (int x) : v (x) { } ARCH_COPY (A6) A6& operator= (const A6&) = default; };
#ifdef SUBJECT_STD
template <typename T> using V = std::vector<T>;
#else
template <typename T> using V = gch::small_vector<T, 4>;
#endif
