// interp.hpp -- the program interpreter: executes a Program against real small_vectors,
// a std::vector<int> reference model and the probes of the property under check.
// C++11-clean (compiled under -std=c++11..23 for C17).  The class body is split over
// the interp_*.inc fragments, which are included inside the class.
#ifndef VH_INTERP_HPP
#define VH_INTERP_HPP

#include "alloc.hpp"
#include "core.hpp"
#include "elem.hpp"
#include "iters.hpp"
#include "program.hpp"

#include <gch/small_vector.hpp>

#include <algorithm>
#include <climits>
#include <cstdint>
#include <initializer_list>
#include <iterator>
#include <memory>
#include <new>
#include <stdexcept>
#include <type_traits>
#include <utility>
#include <vector>

namespace vh
{

  static const int UNSPEC = INT_MIN;   // model value: "unspecified, do not compare"

  template <typename V>
  struct SlotBox
  {
    unsigned char pre[32];
    alignas (V) unsigned char obj[sizeof (V)];
    unsigned char post[32];
    SlotBox () { std::memset (pre, 0xA5, sizeof pre); std::memset (post, 0xA5, sizeof post); }
    V *get () { return reinterpret_cast<V *> (obj); }
    bool canaries_ok () const
    {
      for (unsigned i = 0; i < sizeof pre; ++i)
        if (pre[i] != 0xA5 || post[i] != 0xA5)
          return false;
      return true;
    }
  };

  enum ReprClass
  {
    RC_FRESH_INLINE = 1, RC_HEAP = 2, RC_SHRUNK_INLINE = 4, RC_STOLEN = 8, RC_ELEMWISE_MOVED = 16, RC_POST_THROW = 32
  };

  struct SlotModel
  {
    std::vector<int> m;          // expected values (UNSPEC entries are not compared)
    int              alloc_id;   // expected allocator id (mark included)
    unsigned         repr;       // ReprClass bits this slot has passed through
    bool             was_heap;
    bool             ever_over_n;      // ever held more than N elements or was asked to reserve more
    SlotModel () : alloc_id (1), repr (RC_FRESH_INLINE), was_heap (false), ever_over_n (false) { }
    bool has_unspec () const
    {
      for (std::size_t i = 0; i < m.size (); ++i) if (m[i] == UNSPEC) return true;
      return false;
    }
  };

  struct Pre
  {
    std::size_t size, cap;
    const void *data;
    int         alloc_id;
    bool        inlined;
  };

  struct Info
  {
    bool        fits_rule;      // C10: "fits => capacity and data unchanged" applies
    bool        c04_exempt;     // C04: op may allocate although the result fits
    bool        c14_listed;     // C14: op must grow geometrically when it reallocates
    bool        known_count;    // C10: growing call that knows its element count up front
    bool        erase_like;     // C10: pop_back / erase / clear never change capacity or data
    std::size_t required;       // capacity the result needs
    std::size_t first_modified; // elements before this index must not be touched
    int         alias_index;    // element the argument aliases (-1: none)
    Info () : fits_rule (false), c04_exempt (false), c14_listed (false), known_count (false),
              erase_like (false), required (0), first_modified (0), alias_index (-1) { }
  };

  template <typename E, unsigned N, unsigned M, typename A>
  class Interp
  {
  public:
    typedef gch::small_vector<E, N, A> VA;
    typedef gch::small_vector<E, M, A> VB;
    typedef AllocInfo<A>               AI;
    typedef ElemTraits<E>              ET;
    typedef typename ET::copyable      Copyable;
    typedef std::integral_constant<bool, ! ET::copyable::value> MoveOnly;

    Interp (const RunOptions& o, RunResult& r)
      : opt (o), res (r), fresh (100), cur_op (0), is_final (false), thrown (false), cur_kind (0)
    {
      for (int i = 0; i < 4; ++i) alive[i] = false;
    }

#include "interp_base.inc"
#include "interp_ops1.inc"
#include "interp_ops2.inc"
#include "interp_run.inc"

  private:
    const RunOptions& opt;
    RunResult&        res;
    SlotBox<VA>       boxA[2];
    SlotBox<VB>       boxB[2];
    SlotModel         model[4];
    bool              alive[4];
    int               fresh;
    const Op         *cur_op;
    bool              is_final;
    bool              thrown;
    int               cur_kind;
    Digest            trace;
    std::map<const void *, unsigned> buffer_owners;   // heap buffer -> number of distinct owners seen
    std::map<const void *, int>      buffer_last_owner;
  };

} // namespace vh

// Defines and registers one configuration in its own translation unit.
#define VH_DEFINE_CONFIG(NAME, FLAV, NN, MM, ALLOC, ALLOCNAME, TWIN)                              \
  namespace {                                                                                      \
    void run_##NAME (const vh::Program& p, const vh::RunOptions& o, vh::RunResult& r)              \
    {                                                                                              \
      vh::reset_globals ();                                                                        \
      vh::construct_counters () = vh::ConstructCounters ();                                        \
      vh::Interp<vh::FLAV, NN, MM, ALLOC> *it = new vh::Interp<vh::FLAV, NN, MM, ALLOC> (o, r);    \
      it->run (p);                                                                                 \
      delete it;                                                                                   \
    }                                                                                              \
    const vh::ConfigEntry entry_##NAME = { #NAME, #FLAV, NN, MM, ALLOCNAME,                        \
      vh::ElemTraits<vh::FLAV>::copyable::value, vh::ElemTraits<vh::FLAV>::tracked::value,         \
      vh::AllocInfo<ALLOC>::tracked, &run_##NAME, TWIN };                                          \
    vh::ConfigRegistrar reg_##NAME (entry_##NAME);                                                 \
  }

#endif
