// lim_main.cpp -- C12: behaviour at and beyond max_size() with narrow size_types.
// Exhaustive enumeration for the 8-bit size_type, boundary grids and rapidcheck-generated
// cases above.  Built twice: with and without -DNDEBUG.
#include "alloc.hpp"
#include "core.hpp"
#include "elem.hpp"

#include <gch/small_vector.hpp>

#include <rapidcheck.h>

#include <csignal>
#include <cstdio>
#include <cstdlib>
#include <cstring>
#include <fstream>
#include <iterator>
#include <map>
#include <set>
#include <stdexcept>
#include <string>
#include <vector>

using namespace vh;

// ---------------------------------------------------------------------- element types
template <unsigned S>
struct LT
{
  unsigned char b[S];
};

template <unsigned S> inline int get_v (const LT<S>& e) { return e.b[0]; }
template <typename T> struct Mk;
template <unsigned S> struct Mk<LT<S> > { static LT<S> mk (int x) { LT<S> e; std::memset (&e, 0, sizeof e); e.b[0] = static_cast<unsigned char> (x); return e; } };
template <> struct Mk<NT> { static NT mk (int x) { return NT (x, HarnessTag ()); } };
template <typename T> struct LimTracked { static const bool value = false; };
template <> struct LimTracked<NT> { static const bool value = true; };
inline int val_at (unsigned long i) { return static_cast<int> ((i * 7u + 3u) & 0x7fu); }

// ---------------------------------------------------------------------- virtual ranges (no storage)
template <typename T, typename Cat>
struct CountIt
{
  typedef Cat            iterator_category;
  typedef T              value_type;
  typedef long long      difference_type;
  typedef const T *      pointer;
  typedef T              reference;
  long long pos; long long base;
  CountIt () : pos (0), base (0) { }
  CountIt (long long p, long long b) : pos (p), base (b) { }
  T operator* () const { return Mk<T>::mk (val_at (static_cast<unsigned long> (base + pos))); }
  CountIt& operator++ () { ++pos; return *this; }
  CountIt operator++ (int) { CountIt t (*this); ++pos; return t; }
  friend bool operator== (const CountIt& a, const CountIt& b) { return a.pos == b.pos; }
  friend bool operator!= (const CountIt& a, const CountIt& b) { return a.pos != b.pos; }
};

template <typename T>
struct CountGen
{
  long long *calls; long long base;
  T operator() () { return Mk<T>::mk (val_at (static_cast<unsigned long> (base + (*calls)++))); }
};

// ---------------------------------------------------------------------- operations
enum LimOp
{
  L_ctor_count, L_ctor_count_value, L_ctor_gen, L_ctor_fwd, L_ctor_input,
  L_assign_count, L_assign_fwd, L_assign_input,
  L_insert_count, L_insert_fwd, L_insert_input,
  L_append_fwd, L_append_input, L_append_sv,
  L_resize, L_resize_value, L_reserve,
  L_push_back, L_emplace_back, L_emplace, L_insert_one,
  L_NOPS
};

static const char *LIM_OP_NAMES[] = {
  "ctor_count", "ctor_count_value", "ctor_gen", "ctor_fwd", "ctor_input",
  "assign_count", "assign_fwd", "assign_input",
  "insert_count", "insert_fwd", "insert_input",
  "append_fwd", "append_input", "append_sv",
  "resize", "resize_value", "reserve",
  "push_back", "emplace_back", "emplace", "insert_one" };

static bool op_takes_count_param (int op)   // count is passed as size_type (cannot exceed its numeric max)
{
  switch (op)
  {
    case L_ctor_count: case L_ctor_count_value: case L_ctor_gen: case L_assign_count: case L_insert_count:
    case L_resize: case L_resize_value: case L_reserve:
      return true;
    default:
      return false;
  }
}

struct Case
{
  int           op;
  unsigned long size;    // size of the container before the call
  unsigned long long k;  // count / length / requested capacity
  int           pos;     // 0 begin, 1 middle, 2 end
};

struct Outcome
{
  bool        failed;
  std::string clause, detail;
  bool        nontrivial;
  bool        threw_length;
  bool        skipped;
};

struct Stats
{
  unsigned long long cases, skipped, length_errors, successes;
  std::set<unsigned long long> nontrivial;
  std::map<std::string, unsigned long long> per_op;
  std::vector<std::string> samples;
  Stats () : cases (0), skipped (0), length_errors (0), successes (0) { }
};

template <typename T, typename SizeT, unsigned long MaxSz, unsigned N>
struct Lim
{
  typedef TrackAlloc<T, ACfg<false, false, false, false, SizeT, MaxSz> > AL;
  typedef gch::small_vector<T, N, AL>  V;
  typedef typename V::size_type        S;

  static unsigned long long smax () { return static_cast<unsigned long long> ((std::numeric_limits<S>::max) ()); }

  static void fill (V& v, std::vector<int>& m, unsigned long n)
  {
    v.reserve (static_cast<S> (n));
    for (unsigned long i = 0; i < n; ++i) { v.push_back (Mk<T>::mk (val_at (i))); m.push_back (val_at (i)); }
  }

  static unsigned long long max_size ()
  {
    V v;
    return static_cast<unsigned long long> (v.max_size ());
  }

  // runs one case; every global is reset first
  static Outcome run (const Case& c)
  {
    reset_globals ();
    Outcome out; out.failed = false; out.nontrivial = false; out.threw_length = false; out.skipped = false;
    const unsigned long long mx = max_size ();
    if (c.size > mx) { out.skipped = true; return out; }
    if (op_takes_count_param (c.op) && c.k > smax ()) { out.skipped = true; return out; }
    const bool is_ctor = c.op <= L_ctor_input;
    {
      V *pv = 0;
      alignas (V) unsigned char box[sizeof (V)];
      std::vector<int> m;
      if (! is_ctor)
      {
        pv = ::new (static_cast<void *> (box)) V ();
        fill (*pv, m, c.size);
      }
      const unsigned long sz = is_ctor ? 0 : c.size;
      const unsigned long p = c.pos == 0 ? 0 : (c.pos == 1 ? sz / 2 : sz);
      const unsigned long long k = c.k;
      // expected result
      unsigned long long new_size = sz, requested = 0;
      switch (c.op)
      {
        case L_ctor_count: case L_ctor_count_value: case L_ctor_gen: case L_ctor_fwd: case L_ctor_input:
        case L_assign_count: case L_assign_fwd: case L_assign_input: case L_resize: case L_resize_value:
          new_size = k; break;
        case L_insert_count: case L_insert_fwd: case L_insert_input: case L_append_fwd: case L_append_input: case L_append_sv:
          new_size = (k > ~0ull - sz) ? ~0ull : sz + k; break;
        case L_reserve: requested = k; break;
        default: new_size = sz + 1; break;
      }
      if (c.op == L_append_sv && k > mx) { if (pv) pv->~V (); out.skipped = true; return out; }
      const bool over = new_size > mx || requested > mx;
      // near the limit or beyond the numeric maximum of size_type
      out.nontrivial = (new_size != ~0ull && new_size + 1 >= mx && new_size <= mx + 1) || (requested + 1 >= mx && requested <= mx + 1 && c.op == L_reserve)
                       || k > smax ();
      // huge successful allocations are not attempted (memory): they are skipped, not judged
      if (! over && (new_size > 70000 || requested > 70000)) { if (pv) pv->~V (); out.skipped = true; return out; }

      // snapshot
      const unsigned long long cap0 = pv ? pv->capacity () : 0;
      const void *data0 = pv ? static_cast<const void *> (pv->data ()) : 0;
      const T value = Mk<T>::mk (99);
      int outcome = 0;   // 0 ok, 1 length_error, 2 bad_alloc, 3 other
      long long gen_calls = 0;
      ledger ().new_epoch ();
      try
      {
        typedef CountIt<T, std::forward_iterator_tag> FI;
        typedef CountIt<T, std::input_iterator_tag>   II;
        const long long kk = static_cast<long long> (k);
        switch (c.op)
        {
          case L_ctor_count:       pv = ::new (static_cast<void *> (box)) V (static_cast<S> (k)); break;
          case L_ctor_count_value: pv = ::new (static_cast<void *> (box)) V (static_cast<S> (k), value); break;
          case L_ctor_gen:       { CountGen<T> g = { &gen_calls, 0 }; pv = ::new (static_cast<void *> (box)) V (static_cast<S> (k), g); break; }
          case L_ctor_fwd:         pv = ::new (static_cast<void *> (box)) V (FI (0, 0), FI (kk, 0)); break;
          case L_ctor_input:       pv = ::new (static_cast<void *> (box)) V (II (0, 0), II (kk, 0)); break;
          case L_assign_count:     pv->assign (static_cast<S> (k), value); break;
          case L_assign_fwd:       pv->assign (FI (0, 1000), FI (kk, 1000)); break;
          case L_assign_input:     pv->assign (II (0, 1000), II (kk, 1000)); break;
          case L_insert_count:     pv->insert (pv->cbegin () + static_cast<typename V::difference_type> (p), static_cast<S> (k), value); break;
          case L_insert_fwd:       pv->insert (pv->cbegin () + static_cast<typename V::difference_type> (p), FI (0, 1000), FI (kk, 1000)); break;
          case L_insert_input:     pv->insert (pv->cbegin () + static_cast<typename V::difference_type> (p), II (0, 1000), II (kk, 1000)); break;
          case L_append_fwd:       pv->append (FI (0, 1000), FI (kk, 1000)); break;
          case L_append_input:     pv->append (II (0, 1000), II (kk, 1000)); break;
          case L_append_sv:
          {
            gch::small_vector<T, N + 1, AL> other;
            for (unsigned long long i = 0; i < k; ++i) other.push_back (Mk<T>::mk (val_at (1000 + i)));
            ledger ().new_epoch ();
            pv->append (other);
            break;
          }
          case L_resize:           pv->resize (static_cast<S> (k)); break;
          case L_resize_value:     pv->resize (static_cast<S> (k), value); break;
          case L_reserve:          pv->reserve (static_cast<S> (k)); break;
          case L_push_back:        pv->push_back (value); break;
          case L_emplace_back:     pv->emplace_back (value); break;
          case L_emplace:          pv->emplace (pv->cbegin () + static_cast<typename V::difference_type> (p), value); break;
          default:                 pv->insert (pv->cbegin () + static_cast<typename V::difference_type> (p), value); break;
        }
      }
      catch (const std::length_error&) { outcome = 1; }
      catch (const std::bad_alloc&)    { outcome = 2; }
      catch (...)                      { outcome = 3; }
      if (is_ctor && outcome != 0) pv = 0;

      char what[128];
      std::snprintf (what, sizeof what, "%s (size %lu, k %llu, pos %d, max_size %llu)", LIM_OP_NAMES[c.op], c.size, k, c.pos, mx);
      if (outcome == 2) { out.skipped = true; }
      else if (outcome == 3) fail ("limits.wrong_exception", "%s: an exception other than std::length_error escaped", what);
      else if (over)
      {
        out.threw_length = (outcome == 1);
        if (outcome != 1)
          fail ("limits.no_length_error", "%s: the result exceeds max_size () but no std::length_error was thrown (size () is now %llu)",
                what, pv ? static_cast<unsigned long long> (pv->size ()) : 0ull);
        else if (pv != 0 && c.op != L_assign_input && ! (c.op == L_insert_input && p == sz))
        {
          // No effect on an existing container.  Single-pass sources: the length is not known up
          // front, so assign / insert-at-end (an incremental append) can only be held to validity,
          // and append (strong) may have grown the capacity before it rolled back.
          const bool values_only = (c.op == L_append_input);
          if (pv->size () != sz || (! values_only && (pv->capacity () != cap0 || static_cast<const void *> (pv->data ()) != data0)))
            fail ("limits.effect", "%s: length_error was thrown but size/capacity/data () changed (size %llu -> %llu, capacity %llu -> %llu)",
                  what, static_cast<unsigned long long> (sz), static_cast<unsigned long long> (pv->size ()), cap0, static_cast<unsigned long long> (pv->capacity ()));
          else
            for (unsigned long i = 0; i < sz; ++i)
              if (get_v ((*pv)[static_cast<S> (i)]) != m[i]) { fail ("limits.effect_values", "%s: length_error was thrown but element %lu changed", what, i); break; }
        }
      }
      else
      {
        if (outcome == 1)
          fail ("limits.spurious_length_error", "%s: std::length_error although the result fits in max_size ()", what);
        else if (c.op != L_reserve && static_cast<unsigned long long> (pv->size ()) != new_size)
          fail ("limits.size", "%s: size () is %llu, expected %llu", what, static_cast<unsigned long long> (pv->size ()), new_size);
        else if (c.op == L_reserve && static_cast<unsigned long long> (pv->capacity ()) < requested)
          fail ("limits.reserve", "%s: capacity () is %llu", what, static_cast<unsigned long long> (pv->capacity ()));
        else
        {
          // spot-check the values: old prefix, first / last inserted
          std::vector<int> want;
          switch (c.op)
          {
            case L_ctor_count: case L_resize: want = m; want.resize (new_size, 0); break;
            case L_ctor_count_value: case L_assign_count: want.assign (new_size, 99); break;
            case L_resize_value: want = m; want.resize (new_size, 99); break;
            case L_ctor_gen: case L_ctor_fwd: case L_ctor_input:
              for (unsigned long long i = 0; i < k; ++i) want.push_back (val_at (i));
              break;
            case L_assign_fwd: case L_assign_input:
              for (unsigned long long i = 0; i < k; ++i) want.push_back (val_at (1000 + i));
              break;
            case L_insert_count: want = m; want.insert (want.begin () + static_cast<long> (p), k, 99); break;
            case L_insert_fwd: case L_insert_input: case L_append_fwd: case L_append_input: case L_append_sv:
            {
              std::vector<int> ins;
              for (unsigned long long i = 0; i < k; ++i) ins.push_back (val_at (1000 + i));
              want = m;
              const unsigned long at = (c.op == L_insert_fwd || c.op == L_insert_input) ? p : sz;
              want.insert (want.begin () + static_cast<long> (at), ins.begin (), ins.end ());
              break;
            }
            case L_reserve: want = m; break;
            case L_push_back: case L_emplace_back: want = m; want.push_back (99); break;
            default: want = m; want.insert (want.begin () + static_cast<long> (p), 99); break;
          }
          if (want.size () != pv->size ()) fail ("limits.size", "%s: size () is %llu, expected %lu", what, static_cast<unsigned long long> (pv->size ()), static_cast<unsigned long> (want.size ()));
          else
            for (std::size_t i = 0; i < want.size (); ++i)
              if (get_v ((*pv)[static_cast<S> (i)]) != want[i]) { fail ("limits.values", "%s: element %lu is %d, expected %d", what, static_cast<unsigned long> (i), get_v ((*pv)[static_cast<S> (i)]), want[i]); break; }
        }
      }
      // always: sizes never exceed max_size, the allocator was never asked for more
      if (pv != 0)
      {
        // max_size () itself must be representable: a container of max_size () elements must have
        // end () - begin () == size () in its own difference_type, and cannot exceed what the allocator offers
        typedef typename V::difference_type DT;
        const unsigned long long dmax = static_cast<unsigned long long> ((std::numeric_limits<DT>::max) ());
        const unsigned long long amax = static_cast<unsigned long long> (std::allocator_traits<AL>::max_size (pv->get_allocator ()));
        if (mx > dmax || mx > amax)
          fail ("limits.max_size_unrepresentable", "%s: max_size () = %llu exceeds min (allocator max_size %llu, difference_type max %llu)", what, mx, amax, dmax);
        if (static_cast<long long> (pv->end () - pv->begin ()) != static_cast<long long> (pv->size ()))
          fail ("limits.iterator_distance_wrapped", "%s: end () - begin () = %lld but size () = %llu", what,
                static_cast<long long> (pv->end () - pv->begin ()), static_cast<unsigned long long> (pv->size ()));
        if (static_cast<unsigned long long> (pv->size ()) > mx)
          fail ("limits.size_over_max", "%s: size () = %llu exceeds max_size ()", what, static_cast<unsigned long long> (pv->size ()));
        if (pv->size () > pv->capacity ())
          fail ("limits.size_over_capacity", "%s: size () %llu > capacity () %llu (wrapped arithmetic)", what,
                static_cast<unsigned long long> (pv->size ()), static_cast<unsigned long long> (pv->capacity ()));
      }
      if (ledger ().max_n_ever > mx)
        fail ("limits.allocate_over_max", "%s: allocate was asked for %lu elements", what, static_cast<unsigned long> (ledger ().max_n_ever));
      if (pv != 0) pv->~V ();
    }
    if (! failure ().set && ! ledger ().live.empty ())
      fail ("limits.leak", "%s: %lu blocks leaked", LIM_OP_NAMES[c.op], static_cast<unsigned long> (ledger ().live.size ()));
    if (! failure ().set && LimTracked<T>::value && ! registry ().live.empty ())
      fail ("limits.leak_elements", "%s: %lu elements leaked", LIM_OP_NAMES[c.op], static_cast<unsigned long> (registry ().live.size ()));
    if (failure ().set) { out.failed = true; out.clause = failure ().clause; out.detail = failure ().detail; }
    return out;
  }
};

// ---------------------------------------------------------------------- configuration table
typedef Outcome (*RunCase) (const Case&);
typedef unsigned long long (*MaxFn) ();
struct LimCfg { const char *name; RunCase run; MaxFn max_size; unsigned long long smax; const char *desc; };

#define LIMCFG(NAME, T, ST, MX, N, DESC) { NAME, &Lim<T, ST, MX, N>::run, &Lim<T, ST, MX, N>::max_size, static_cast<unsigned long long> ((std::numeric_limits<ST>::max) ()), DESC }

static const LimCfg CFGS[] = {
  LIMCFG ("u8_b1_n0",   LT<1>,  unsigned char,  0, 0,  "uint8_t size_type, 1-byte elements, N=0"),
  LIMCFG ("u8_b1_n4",   LT<1>,  unsigned char,  0, 4,  "uint8_t size_type, 1-byte elements, N=4"),
  LIMCFG ("u8_b2_n4",   LT<2>,  unsigned char,  0, 4,  "uint8_t size_type, 2-byte elements, N=4"),
  LIMCFG ("u8_b4_n16",  LT<4>,  unsigned char,  0, 16, "uint8_t size_type, 4-byte elements, N=16"),
  LIMCFG ("u8_b8_n0",   LT<8>,  unsigned char,  0, 0,  "uint8_t size_type, 8-byte elements, N=0"),
  LIMCFG ("u8_b24_n4",  LT<24>, unsigned char,  0, 4,  "uint8_t size_type, 24-byte elements, N=4"),
  LIMCFG ("u8_nt_n4",   NT,     unsigned char,  0, 4,  "uint8_t size_type, tracked non-trivial element, N=4"),
  LIMCFG ("u16_b1_n4",  LT<1>,  unsigned short, 0, 4,  "uint16_t size_type, 1-byte elements, N=4"),
  LIMCFG ("u16_b8_n0",  LT<8>,  unsigned short, 0, 0,  "uint16_t size_type, 8-byte elements, N=0"),
  LIMCFG ("u16_nt_n16", NT,     unsigned short, 0, 16, "uint16_t size_type, tracked non-trivial element, N=16"),
  LIMCFG ("u32_b4_n4",  LT<4>,  unsigned int,   0, 4,  "uint32_t size_type, 4-byte elements, N=4 (only the failing side is reachable)"),
  LIMCFG ("m1000_b4_n4", LT<4>, std::size_t, 1000, 4,  "size_t size_type with allocator max_size () = 1000, 4-byte elements, N=4"),
  LIMCFG ("m1000_nt_n0", NT,    std::size_t, 1000, 0,  "size_t size_type with allocator max_size () = 1000, tracked element, N=0"),
  LIMCFG ("m1000_b24_n16", LT<24>, std::size_t, 1000, 16, "size_t size_type with allocator max_size () = 1000, 24-byte elements, N=16"),
};

static const LimCfg *
find_cfg (const std::string& n)
{
  for (unsigned i = 0; i < sizeof CFGS / sizeof CFGS[0]; ++i) if (n == CFGS[i].name) return &CFGS[i];
  return 0;
}

static std::string
case_text (const std::string& cfg, const Case& c)
{
  char b[200];
  std::snprintf (b, sizeof b, "verif-lim 1\ncfg %s\ncase op=%s size=%lu k=%llu pos=%d\n", cfg.c_str (), LIM_OP_NAMES[c.op], c.size, c.k, c.pos);
  return b;
}

static bool
parse_case (const std::string& text, std::string& cfg, Case& c)
{
  char cf[64], opn[64];
  unsigned long size; unsigned long long k; int pos;
  const char *p = std::strstr (text.c_str (), "cfg ");
  if (! p || std::sscanf (p, "cfg %63s", cf) != 1) return false;
  p = std::strstr (text.c_str (), "case ");
  if (! p || std::sscanf (p, "case op=%63s size=%lu k=%llu pos=%d", opn, &size, &k, &pos) != 4) return false;
  cfg = cf;
  c.op = -1;
  for (int i = 0; i < L_NOPS; ++i) if (std::string (opn) == LIM_OP_NAMES[i]) c.op = i;
  c.size = size; c.k = k; c.pos = pos;
  return c.op >= 0;
}

static unsigned long long
case_fp (const Case& c)
{
  Digest d; d.add (static_cast<unsigned long long> (c.op)); d.add (c.size); d.add (c.k); d.add (static_cast<unsigned long long> (c.pos));
  return d.h;
}

extern "C" void __sanitizer_set_death_callback (void (*) (void)) __attribute__ ((weak));
static std::string g_crash_path, g_crash_cfg;
static Case        g_cur_case;
static bool        g_have_case = false;
static void
dump_case ()
{
  if (! g_have_case || g_crash_path.empty ()) return;
  std::ofstream f (g_crash_path.c_str ());
  f << case_text (g_crash_cfg, g_cur_case);
}
static void on_term () { dump_case (); std::fprintf (stderr, "VERIF-TERMINATE\n"); std::_Exit (78); }
static void on_sig (int s) { dump_case (); std::fprintf (stderr, "VERIF-SIGNAL %d (abort/assert or crash inside the library)\n", s); std::_Exit (79); }

struct Runner
{
  const LimCfg *cfg;
  Stats         st;
  bool          have_failure;
  Case          failing;
  Outcome       failing_out;
  Runner () : cfg (0), have_failure (false) { }

  bool one (const Case& c)
  {
    g_cur_case = c; g_have_case = true; g_crash_cfg = cfg->name;
    Outcome o = cfg->run (c);
    g_have_case = false;
    ++st.cases;
    if (o.skipped) { ++st.skipped; return true; }
    ++st.per_op[LIM_OP_NAMES[c.op]];
    if (o.threw_length) ++st.length_errors; else ++st.successes;
    if (o.nontrivial) st.nontrivial.insert (case_fp (c));
    if (st.samples.size () < 5 && o.nontrivial && (st.cases % 1013) == 7) st.samples.push_back (case_text (cfg->name, c));
    if (o.failed) { have_failure = true; failing = c; failing_out = o; return false; }
    return true;
  }
};

static std::vector<unsigned long long>
boundary_values (unsigned long long mx, unsigned long long smax, unsigned long size)
{
  std::set<unsigned long long> s;
  const unsigned long long base[] = { 0, 1, 2, mx / 2, smax / 2, smax / 2 + 1, smax - 1, smax, smax + 1, smax + 2, 2 * smax, 2 * smax + 5 };
  for (unsigned i = 0; i < sizeof base / sizeof base[0]; ++i) s.insert (base[i]);
  for (long long d = -2; d <= 2; ++d)
  {
    if (static_cast<long long> (mx) + d >= 0) s.insert (static_cast<unsigned long long> (static_cast<long long> (mx) + d));
    if (static_cast<long long> (mx) - static_cast<long long> (size) + d >= 0)
      s.insert (static_cast<unsigned long long> (static_cast<long long> (mx) - static_cast<long long> (size) + d));
    if (static_cast<long long> (2 * mx) + d >= 0) s.insert (static_cast<unsigned long long> (static_cast<long long> (2 * mx) + d));
  }
  return std::vector<unsigned long long> (s.begin (), s.end ());
}

int
main (int argc, char **argv)
{
  std::set_terminate (on_term);
  std::signal (SIGABRT, on_sig); std::signal (SIGSEGV, on_sig); std::signal (SIGFPE, on_sig); std::signal (SIGBUS, on_sig);
  if (__sanitizer_set_death_callback) __sanitizer_set_death_callback (dump_case);
  std::string cfgname, mode = "grid", out, replay_path, replay_out;
  unsigned long long seed = 1;
  unsigned cases = 2000, shard = 0, nshards = 1;
  for (int i = 1; i < argc; ++i)
  {
    const std::string a = argv[i];
    const char *next = (i + 1 < argc) ? argv[i + 1] : "";
    if (a == "--cfg") { cfgname = next; ++i; }
    else if (a == "--mode") { mode = next; ++i; }
    else if (a == "--out") { out = next; ++i; }
    else if (a == "--seed") { seed = std::strtoull (next, 0, 10); ++i; }
    else if (a == "--cases") { cases = static_cast<unsigned> (std::atoi (next)); ++i; }
    else if (a == "--shard") { shard = static_cast<unsigned> (std::atoi (next)); ++i; }
    else if (a == "--nshards") { nshards = static_cast<unsigned> (std::atoi (next)); ++i; }
    else if (a == "--replay") { replay_path = next; ++i; }
    else if (a == "--replay-out") { replay_out = next; ++i; }
    else if (a == "--crash-out") { g_crash_path = next; ++i; }
    else if (a == "--list") { for (unsigned k = 0; k < sizeof CFGS / sizeof CFGS[0]; ++k) std::printf ("%s %llu %s\n", CFGS[k].name, CFGS[k].max_size (), CFGS[k].desc); return 0; }
  }
  if (! replay_path.empty ())
  {
    std::ifstream f (replay_path.c_str ());
    std::string text ((std::istreambuf_iterator<char> (f)), std::istreambuf_iterator<char> ());
    Case c;
    if (! parse_case (text, cfgname, c)) { std::fprintf (stderr, "bad lim replay file\n"); return 3; }
    const LimCfg *cfg = find_cfg (cfgname);
    if (! cfg) { std::fprintf (stderr, "unknown cfg\n"); return 3; }
    Outcome o = cfg->run (c);
    if (o.failed) { std::printf ("FAIL clause=%s detail=%s\n", o.clause.c_str (), o.detail.c_str ()); return 1; }
    std::printf (o.skipped ? "SKIPPED\n" : "PASS\n");
    return 0;
  }
  const LimCfg *cfg = find_cfg (cfgname);
  if (! cfg) { std::fprintf (stderr, "unknown --cfg\n"); return 3; }
  Runner r; r.cfg = cfg;
  const unsigned long long mx = cfg->max_size ();
  bool exhaustive = false;
  if (mode == "exh")
  {
    // every size 0..max, every op, every count 0..numeric max (count-taking) or 0..numeric max + 45 (ranges), 3 positions
    exhaustive = true;
    unsigned long idx = 0;
    for (unsigned long size = 0; size <= mx && ! r.have_failure; ++size)
    {
      if ((idx++ % nshards) != shard) continue;
      for (int op = 0; op < L_NOPS && ! r.have_failure; ++op)
      {
        const bool ctor = op <= L_ctor_input;
        if (ctor && size != 0) continue;
        const bool single = op >= L_push_back;
        const unsigned long long kmax = single ? 0 : (op_takes_count_param (op) ? cfg->smax : cfg->smax + 45);
        const bool positional = (op == L_insert_count || op == L_insert_fwd || op == L_insert_input || op == L_emplace || op == L_insert_one);
        for (unsigned long long k = 0; k <= kmax && ! r.have_failure; ++k)
          for (int pos = positional ? 0 : 2; pos <= 2 && ! r.have_failure; ++pos)
          {
            Case c = { op, size, k, pos };
            r.one (c);
          }
      }
    }
  }
  else if (mode == "grid")
  {
    std::set<unsigned long> sizes;
    const unsigned long long ss[] = { 0, 1, 3, mx / 2, mx - 2, mx - 1, mx };
    for (unsigned i = 0; i < sizeof ss / sizeof ss[0]; ++i) if (ss[i] <= mx && ss[i] <= 70000) sizes.insert (static_cast<unsigned long> (ss[i]));
    unsigned long idx = 0;
    for (std::set<unsigned long>::iterator si = sizes.begin (); si != sizes.end () && ! r.have_failure; ++si)
    {
      std::vector<unsigned long long> ks = boundary_values (mx, cfg->smax, *si);
      for (int op = 0; op < L_NOPS && ! r.have_failure; ++op)
      {
        if ((idx++ % nshards) != shard) continue;
        const bool ctor = op <= L_ctor_input;
        if (ctor && *si != 0) continue;
        const bool positional = (op == L_insert_count || op == L_insert_fwd || op == L_insert_input || op == L_emplace || op == L_insert_one);
        for (std::size_t ki = 0; ki < ks.size () && ! r.have_failure; ++ki)
          for (int pos = positional ? 0 : 2; pos <= 2 && ! r.have_failure; ++pos)
          {
            // ranges far beyond the limit are walked element by element by single-pass paths: bound the work
            if (ks[ki] > 300000 && ! op_takes_count_param (op)) continue;
            Case c = { op, *si, ks[ki], pos };
            r.one (c);
          }
      }
    }
  }
  else
  {
    // rapidcheck: sizes and counts biased to the limit
    char params[128];
    std::snprintf (params, sizeof params, "seed=%llu max_success=%u max_size=100", seed == 0 ? 1 : seed, cases);
    setenv ("RC_PARAMS", params, 1);
    const unsigned long long smax = cfg->smax;
    rc::check (std::string ("C12 on ") + cfg->name, [&] () {
      const int op = *rc::gen::resize (rc::kNominalSize, rc::gen::inRange (0, static_cast<int> (L_NOPS)));
      const int ssel = *rc::gen::resize (rc::kNominalSize, rc::gen::inRange (0, 6));
      const unsigned long long r1 = *rc::gen::resize (rc::kNominalSize, rc::gen::inRange<unsigned long long> (0, mx + 1));
      const int ksel = *rc::gen::resize (rc::kNominalSize, rc::gen::inRange (0, 8));
      const unsigned long long r2 = *rc::gen::resize (rc::kNominalSize, rc::gen::inRange<unsigned long long> (0, 2 * smax + 50));
      const int pos = *rc::gen::resize (rc::kNominalSize, rc::gen::inRange (0, 3));
      unsigned long long size = 0;
      switch (ssel) { case 0: size = 0; break; case 1: size = mx; break; case 2: size = mx - (r1 % 3 <= mx ? r1 % 3 : 0); break; case 3: size = r1 % 8; break; default: size = r1; break; }
      if (size > mx) size = mx;
      if (size > 70000) size = r1 % 1000;
      unsigned long long k = 0;
      switch (ksel)
      {
        case 0: k = mx - size; break;
        case 1: k = mx - size + 1; break;
        case 2: k = mx; break;
        case 3: k = mx + 1; break;
        case 4: k = smax + (r2 % 40); break;
        case 5: k = r2 % 5; break;
        default: k = r2; break;
      }
      if (k > 300000) k = smax + (r2 % 40) > 300000 ? 300000 : smax + (r2 % 40);
      Case c = { op, static_cast<unsigned long> (op <= L_ctor_input ? 0 : size), k, pos };
      const bool good = r.one (c);
      if (! good) RC_FAIL (r.failing_out.clause + ": " + r.failing_out.detail);
    });
  }
  if (r.have_failure && ! replay_out.empty ())
  {
    std::ofstream f (replay_out.c_str ());
    f << case_text (cfg->name, r.failing);
  }
  if (! out.empty ())
  {
    std::ofstream f (out.c_str ());
    f << "{\"cfg\": \"" << cfg->name << "\", \"mode\": \"" << mode << "\", \"max_size\": " << mx << ", \"cases\": " << r.st.cases
      << ", \"skipped\": " << r.st.skipped << ", \"length_errors\": " << r.st.length_errors << ", \"successes\": " << r.st.successes
      << ", \"exhaustive\": " << (exhaustive ? "true" : "false") << ", \"nontrivial\": [";
    { bool first = true; for (std::set<unsigned long long>::iterator it = r.st.nontrivial.begin (); it != r.st.nontrivial.end (); ++it) { f << (first ? "" : ",") << *it; first = false; } }
    f << "], \"per_op\": {";
    { bool first = true; for (std::map<std::string, unsigned long long>::iterator it = r.st.per_op.begin (); it != r.st.per_op.end (); ++it) { f << (first ? "" : ", ") << "\"" << it->first << "\": " << it->second; first = false; } }
    f << "}, \"samples\": [";
    for (std::size_t i = 0; i < r.st.samples.size (); ++i)
    {
      std::string s = r.st.samples[i];
      for (std::size_t j = 0; j < s.size (); ++j) if (s[j] == '\n') s[j] = ';';
      f << (i ? ", " : "") << "\"" << s << "\"";
    }
    f << "]";
    if (r.have_failure)
    {
      std::string d = r.failing_out.detail;
      for (std::size_t j = 0; j < d.size (); ++j) if (d[j] == '"' || d[j] == '\\') d[j] = '\'';
      f << ", \"failure\": {\"clause\": \"" << r.failing_out.clause << "\", \"detail\": \"" << d << "\", \"op\": \"" << LIM_OP_NAMES[r.failing.op] << "\"}";
    }
    f << ", \"end\": true}\n";
  }
  if (r.have_failure)
  {
    std::printf ("FAILURE cfg=%s clause=%s detail=%s\n%s", cfg->name, r.failing_out.clause.c_str (), r.failing_out.detail.c_str (), case_text (cfg->name, r.failing).c_str ());
    return 1;
  }
  return 0;
}
