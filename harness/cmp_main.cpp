// cmp_main.cpp -- C16: comparisons and non-member functions against std::vector.
// Exhaustive over small contents, rapidcheck beyond.  Built as C++17 (six legacy
// operators) and C++20 (operator<=>) with g++ and clang++; the driver cross-checks the
// verdict-table digests of all builds.
#include <gch/small_vector.hpp>

#include <rapidcheck.h>

#include <algorithm>
#include <cmath>
#include <cstdio>
#include <cstdlib>
#include <cstring>
#include <fstream>
#include <limits>
#include <string>
#include <type_traits>
#include <vector>
#if __cplusplus >= 202002L
#  include <compare>
#endif

struct Dg
{
  unsigned long long h;
  Dg () : h (1469598103934665603ull) { }
  void add (unsigned long long x) { for (int i = 0; i < 8; ++i) { h ^= (x >> (8 * i)) & 0xffu; h *= 1099511628211ull; } }
};

// element with only == and <
struct EqLt
{
  int v;
  EqLt () : v (0) { }
  EqLt (int x) : v (x) { }
  friend bool operator== (const EqLt& a, const EqLt& b) { return a.v == b.v; }
  friend bool operator<  (const EqLt& a, const EqLt& b) { return a.v < b.v; }
};

// element with a defaulted <=> in C++20 and the six operators before
struct Ord
{
  int v;
  Ord () : v (0) { }
  Ord (int x) : v (x) { }
#if __cplusplus >= 202002L
  friend auto operator<=> (const Ord&, const Ord&) = default;
  friend bool operator== (const Ord&, const Ord&) = default;
#else
  friend bool operator== (const Ord& a, const Ord& b) { return a.v == b.v; }
  friend bool operator!= (const Ord& a, const Ord& b) { return a.v != b.v; }
  friend bool operator<  (const Ord& a, const Ord& b) { return a.v <  b.v; }
  friend bool operator<= (const Ord& a, const Ord& b) { return a.v <= b.v; }
  friend bool operator>  (const Ord& a, const Ord& b) { return a.v >  b.v; }
  friend bool operator>= (const Ord& a, const Ord& b) { return a.v >= b.v; }
#endif
};

template <typename T> struct Conv { static T from (int x) { return T (x); } };
template <> struct Conv<double> { static double from (int x) { return x == 3 ? std::numeric_limits<double>::quiet_NaN () : static_cast<double> (x); } };

// Built-in element types whose object representation orders differently from their values
// (negative numbers, -0.0 / NaN, enums, pointers): a byte-wise "fast path" in a comparison
// would get these wrong.  Codes 0..3 are mapped to values that straddle the sign bit.
enum class SEnum : signed char { a = 1, b = -2, c = 0, d = 100 };
static const int g_ptr_pool[4] = { 10, 11, 12, 13 };
template <> struct Conv<signed char>   { static signed char   from (int x) { static const signed char   t[4] = { 1, -2, 0, 127 };  return t[x & 3]; } };
template <> struct Conv<char>          { static char          from (int x) { static const char          t[4] = { 1, static_cast<char> (-2), 0, 127 }; return t[x & 3]; } };
template <> struct Conv<unsigned char> { static unsigned char from (int x) { static const unsigned char t[4] = { 1, 200, 0, 255 }; return t[x & 3]; } };
template <> struct Conv<short>         { static short         from (int x) { static const short         t[4] = { 1, -2, 0, 32767 }; return t[x & 3]; } };
template <> struct Conv<long long>     { static long long     from (int x) { static const long long     t[4] = { 1, -2, 0, std::numeric_limits<long long>::max () }; return t[x & 3]; } };
template <> struct Conv<unsigned>      { static unsigned      from (int x) { static const unsigned      t[4] = { 1u, 0x80000000u, 0u, ~0u }; return t[x & 3]; } };
template <> struct Conv<float>         { static float         from (int x) { static const float         t[4] = { 0.0f, -0.0f, 1.0f, std::numeric_limits<float>::quiet_NaN () }; return t[x & 3]; } };
template <> struct Conv<SEnum>         { static SEnum         from (int x) { static const SEnum         t[4] = { SEnum::a, SEnum::b, SEnum::c, SEnum::d }; return t[x & 3]; } };
template <> struct Conv<const int *>   { static const int *   from (int x) { return &g_ptr_pool[(5 - x) & 3]; } };

struct Fail { bool set; std::string msg; std::string replay; };
static Fail g_fail = { false, "", "" };
static unsigned long long g_evals = 0, g_nontrivial = 0;
static std::vector<std::string> g_samples;

static std::string
content_text (const std::vector<int>& a)
{
  std::string s = "[";
  for (std::size_t i = 0; i < a.size (); ++i) { if (i) s += ","; s += std::to_string (a[i]); }
  return s + "]";
}

static void
fail (const std::string& what, const char *type, unsigned n, unsigned m, const std::vector<int>& a, const std::vector<int>& b)
{
  if (g_fail.set) return;
  g_fail.set = true;
  g_fail.msg = what;
  g_fail.replay = std::string ("verif-cmp 1\ntype ") + type + "\ncaps " + std::to_string (n) + " " + std::to_string (m) + "\nlhs " + content_text (a) + "\nrhs " + content_text (b) + "\n";
}

#if __cplusplus >= 202002L
template <typename C> static int ord_code (C c)
{
  if constexpr (std::is_same_v<C, std::partial_ordering>)
    return c == std::partial_ordering::less ? -1 : c == std::partial_ordering::greater ? 1 : c == std::partial_ordering::equivalent ? 0 : 2;
  else
    return c < 0 ? -1 : (c > 0 ? 1 : 0);
}
#endif

// compares one pair of contents in containers of inline capacity N and M
template <typename T, unsigned N, unsigned M>
static void
compare_pair (const char *type, const std::vector<int>& a, const std::vector<int>& b, bool total_order, Dg& table)
{
  gch::small_vector<T, N> x;
  gch::small_vector<T, M> y;
  std::vector<T> va, vb;
  for (std::size_t i = 0; i < a.size (); ++i) { x.push_back (Conv<T>::from (a[i])); va.push_back (Conv<T>::from (a[i])); }
  for (std::size_t i = 0; i < b.size (); ++i) { y.push_back (Conv<T>::from (b[i])); vb.push_back (Conv<T>::from (b[i])); }
  const gch::small_vector<T, N>& cx = x;
  const gch::small_vector<T, M>& cy = y;
  const bool r[6] = { cx == cy, cx != cy, cx < cy, cx <= cy, cx > cy, cx >= cy };
  const bool w[6] = { va == vb, va != vb, va < vb, va <= vb, va > vb, va >= vb };
  static const char *names[6] = { "==", "!=", "<", "<=", ">", ">=" };
  ++g_evals;
  for (int i = 0; i < 6; ++i)
  {
    table.add (r[i]);
    if (r[i] != w[i])
      fail (std::string ("operator") + names[i] + " gives " + (r[i] ? "true" : "false") + ", std::vector gives " + (w[i] ? "true" : "false"), type, N, M, a, b);
  }
  // mutual consistency
  const bool rev_gt = (cy > cx), rev_lt = (cy < cx);
  if (r[2] != rev_gt) fail ("a < b but not b > a (or vice versa)", type, N, M, a, b);
  if (r[0] == r[1]) fail ("a == b and a != b are not complementary", type, N, M, a, b);
  if (total_order && r[3] != ! rev_lt) fail ("a <= b disagrees with !(b < a)", type, N, M, a, b);
  if (total_order && r[5] != ! r[2]) fail ("a >= b disagrees with !(a < b)", type, N, M, a, b);
#if __cplusplus >= 202002L
  {
    auto c1 = (cx <=> cy);
    auto c2 = (va <=> vb);
    static_assert (std::is_same_v<decltype (c1), decltype (c2)>, "comparison category of small_vector <=> differs from std::vector's");
    table.add (static_cast<unsigned long long> (ord_code (c1) + 2));
    if (ord_code (c1) != ord_code (c2)) fail ("operator<=> result differs from std::vector's", type, N, M, a, b);
  }
#else
  {
    // keep the verdict tables of the C++17 and C++20 builds comparable
    const int code = w[0] ? 0 : (w[2] ? -1 : (w[4] ? 1 : 2));
    table.add (static_cast<unsigned long long> (code + 2));
  }
#endif
  // non-trivial: proper prefix, equal length differing in the last position, or mixed capacities
  bool nt = (N != M);
  if (a.size () != b.size ())
  {
    const std::vector<int>& s = a.size () < b.size () ? a : b;
    const std::vector<int>& l = a.size () < b.size () ? b : a;
    if (std::equal (s.begin (), s.end (), l.begin ())) nt = true;
  }
  else if (! a.empty () && std::equal (a.begin (), a.end () - 1, b.begin ()) && a.back () != b.back ())
    nt = true;
  if (nt)
  {
    ++g_nontrivial;
    if (g_samples.size () < 4 && (g_nontrivial % 50021) == 17)
      g_samples.push_back (std::string (type) + " N=" + std::to_string (N) + " M=" + std::to_string (M) + " " + content_text (a) + " vs " + content_text (b));
  }
}

template <typename T>
static void
compare_all_caps (const char *type, const std::vector<int>& a, const std::vector<int>& b, bool total, Dg& table)
{
  compare_pair<T, 0, 0> (type, a, b, total, table);
  compare_pair<T, 0, 3> (type, a, b, total, table);
  compare_pair<T, 3, 0> (type, a, b, total, table);
  compare_pair<T, 2, 2> (type, a, b, total, table);
  compare_pair<T, 2, 5> (type, a, b, total, table);
}

static void
compare_scalars (const std::vector<int>& a, const std::vector<int>& b, Dg& table)
{
  compare_all_caps<signed char>   ("schar", a, b, true, table);
  compare_all_caps<char>          ("char", a, b, true, table);
  compare_all_caps<unsigned char> ("uchar", a, b, true, table);
  compare_all_caps<short>         ("short", a, b, true, table);
  compare_all_caps<long long>     ("llong", a, b, true, table);
  compare_all_caps<unsigned>      ("unsigned", a, b, true, table);
  compare_all_caps<float>         ("float", a, b, false, table);
  compare_all_caps<SEnum>         ("enum:schar", a, b, true, table);
  compare_all_caps<const int *>   ("pointer", a, b, true, table);
}

static void
all_contents (unsigned alphabet, unsigned maxlen, std::vector<std::vector<int> >& out)
{
  out.clear ();
  out.push_back (std::vector<int> ());
  std::size_t start = 0;
  for (unsigned len = 1; len <= maxlen; ++len)
  {
    const std::size_t end = out.size ();
    for (std::size_t i = start; i < end; ++i)
      for (unsigned v = 0; v < alphabet; ++v)
      {
        std::vector<int> c = out[i];
        c.push_back (static_cast<int> (v));
        out.push_back (c);
      }
    start = end;
  }
}

// ------------------------------------------------------------------ non-member functions
static long long key_of (int t) { return t; }
static long long key_of (long long t) { return t; }
static long long key_of (unsigned char t) { return t; }
static long long key_of (const EqLt& t) { return t.v; }
static long long key_of (const Ord& t) { return t.v; }
static long long key_of (double t) { return t != t ? 3 : static_cast<long long> (t); }
template <typename A, typename B>
static bool
same_keys (const A& a, const B& b)
{
  if (a.size () != b.size ()) return false;
  for (std::size_t i = 0; i < b.size (); ++i) if (key_of (a[static_cast<typename A::size_type> (i)]) != key_of (b[i])) return false;
  return true;
}

template <typename T, unsigned N>
static void
check_nonmembers (const char *type, const std::vector<int>& a, int value, int k)
{
  gch::small_vector<T, N> x;
  std::vector<T> m;
  for (std::size_t i = 0; i < a.size (); ++i) { x.push_back (Conv<T>::from (a[i])); m.push_back (Conv<T>::from (a[i])); }
  const gch::small_vector<T, N>& cx = x;
  ++g_evals;
  if (gch::size (x) != x.size () || gch::empty (x) != x.empty () || gch::data (x) != x.data () || gch::data (cx) != cx.data ()
      || static_cast<std::size_t> (gch::ssize (x)) != x.size () || ! std::is_signed<decltype (gch::ssize (x))>::value
      || ! (gch::begin (x) == x.begin ()) || ! (gch::end (x) == x.end ()) || ! (gch::cbegin (x) == x.cbegin ()) || ! (gch::cend (x) == x.cend ())
      || ! (gch::rbegin (x) == x.rbegin ()) || ! (gch::rend (x) == x.rend ()) || ! (gch::crbegin (x) == x.crbegin ()) || ! (gch::crend (x) == x.crend ())
      || ! (gch::begin (cx) == cx.begin ()) || ! (gch::end (cx) == cx.end ()) || ! (gch::rbegin (cx) == cx.rbegin ()) || ! (gch::rend (cx) == cx.rend ()))
    fail ("a non-member accessor disagrees with the member", type, N, N, a, a);
  // swap (ADL)
  {
    gch::small_vector<T, N> y;
    y.push_back (Conv<T>::from (7));
    gch::small_vector<T, N> x2 (x);
    using std::swap;
    swap (x2, y);
    if (y.size () != a.size () || x2.size () != 1 || key_of (x2[0]) != 7)
      fail ("non-member swap did not exchange the contents", type, N, N, a, a);
    for (std::size_t i = 0; i < a.size () && i < y.size (); ++i)
      if (key_of (y[i]) != key_of (m[i])) { fail ("non-member swap did not exchange the contents", type, N, N, a, a); break; }
  }
  // erase
  {
    gch::small_vector<T, N> e (x);
    std::vector<T> me (m);
    const T val = Conv<T>::from (value);
    const typename gch::small_vector<T, N>::size_type got = gch::erase (e, val);
    const std::size_t before = me.size ();
    me.erase (std::remove (me.begin (), me.end (), val), me.end ());
    if (got != before - me.size ()) fail ("erase (v, value) returned the wrong count", type, N, N, a, std::vector<int> (1, value));
    if (! same_keys (e, me)) fail ("erase (v, value) left the wrong elements", type, N, N, a, std::vector<int> (1, value));
    if (got != 0 && got != before) ++g_nontrivial;
  }
  // erase_if
  {
    gch::small_vector<T, N> e (x);
    std::vector<T> me (m);
    std::vector<int> keys (a);
    // predicate over the position-independent key: value mod k == 0 (evaluated on the ints)
    struct P { int k; bool operator() (const T& t) const { return key_of (t) % k == 0; } };
    P p; p.k = k;
    const std::size_t before = me.size ();
    const typename gch::small_vector<T, N>::size_type got = gch::erase_if (e, p);
    me.erase (std::remove_if (me.begin (), me.end (), p), me.end ());
    if (got != before - me.size ()) fail ("erase_if returned the wrong count", type, N, N, a, std::vector<int> (1, k));
    if (! same_keys (e, me)) fail ("erase_if left the wrong elements", type, N, N, a, std::vector<int> (1, k));
  }
}


// erase (v, value) with a value of a *different* type: elements are compared with the value
// as given (`*it == value`), it is never converted to the element type first
template <typename T, unsigned N, typename U>
static void
check_hetero_erase (const char *type, const std::vector<int>& a, const U& value, int tag)
{
  gch::small_vector<T, N> e;
  std::vector<T> m;
  for (std::size_t i = 0; i < a.size (); ++i) { e.push_back (static_cast<T> (a[i])); m.push_back (static_cast<T> (a[i])); }
  std::vector<T> keep;
  for (std::size_t i = 0; i < m.size (); ++i) if (! (m[i] == value)) keep.push_back (m[i]);
  ++g_evals;
  const typename gch::small_vector<T, N>::size_type got = gch::erase (e, value);
  if (got != m.size () - keep.size ()) fail ("erase (v, value of another type) returned the wrong count", type, N, N, a, std::vector<int> (1, tag));
  if (! same_keys (e, keep)) fail ("erase (v, value of another type) left the wrong elements", type, N, N, a, std::vector<int> (1, tag));
  if (keep.size () != m.size ()) ++g_nontrivial;
}

static void
hetero_suite (const std::vector<int>& a)
{
  check_hetero_erase<int, 0> ("int/double", a, 2.5, 25);
  check_hetero_erase<int, 3> ("int/double", a, 2.0, 20);
  check_hetero_erase<int, 3> ("int/double", a, 1.5, 15);
  check_hetero_erase<int, 2> ("int/long long", a, 4294967297LL, 4297);
  check_hetero_erase<int, 2> ("int/long long", a, 1LL, 1);
  check_hetero_erase<unsigned char, 4> ("uchar/int", a, 257, 257);
  check_hetero_erase<unsigned char, 0> ("uchar/int", a, 2, 2);
  check_hetero_erase<double, 2> ("double/int", a, 1, 1);
  check_hetero_erase<long long, 3> ("long long/unsigned", a, 2u, 2);
}

int
main (int argc, char **argv)
{
  std::string out, replay_out, mode = "all";
  unsigned long long seed = 1;
  unsigned cases = 20000;
  for (int i = 1; i < argc; ++i)
  {
    const std::string a = argv[i];
    const char *next = (i + 1 < argc) ? argv[i + 1] : "";
    if (a == "--out") { out = next; ++i; }
    else if (a == "--replay-out") { replay_out = next; ++i; }
    else if (a == "--seed") { seed = std::strtoull (next, 0, 10); ++i; }
    else if (a == "--cases") { cases = static_cast<unsigned> (std::atoi (next)); ++i; }
    else if (a == "--mode") { mode = next; ++i; }
  }
  Dg t_int, t_eqlt, t_ord, t_dbl;
  std::vector<std::vector<int> > cs;
  // exhaustive: all pairs of contents over {0,1,2} up to length 4, five capacity pairs, four element types
  all_contents (3, 4, cs);
  for (std::size_t i = 0; i < cs.size () && ! g_fail.set; ++i)
    for (std::size_t j = 0; j < cs.size () && ! g_fail.set; ++j)
    {
      compare_all_caps<int>  ("int", cs[i], cs[j], true, t_int);
      compare_all_caps<EqLt> ("eqlt", cs[i], cs[j], true, t_eqlt);
      compare_all_caps<Ord>  ("ord", cs[i], cs[j], true, t_ord);
    }
  // double including NaN (value 3 maps to NaN): alphabet {0,1,3} up to length 3
  {
    std::vector<std::vector<int> > ds;
    all_contents (3, 3, ds);
    for (std::size_t i = 0; i < ds.size (); ++i) for (std::size_t k = 0; k < ds[i].size (); ++k) if (ds[i][k] == 2) ds[i][k] = 3;
    for (std::size_t i = 0; i < ds.size () && ! g_fail.set; ++i)
      for (std::size_t j = 0; j < ds.size () && ! g_fail.set; ++j)
        compare_all_caps<double> ("double", ds[i], ds[j], false, t_dbl);
  }
  // built-in scalar element types (signed bytes, -0.0f/NaN, enum, pointers): alphabet of 4 codes up to length 3
  {
    std::vector<std::vector<int> > ss;
    Dg t_scal;
    all_contents (4, 3, ss);
    for (std::size_t i = 0; i < ss.size () && ! g_fail.set; ++i)
      for (std::size_t j = 0; j < ss.size () && ! g_fail.set; ++j)
        compare_scalars (ss[i], ss[j], t_scal);
  }
  const unsigned long long exhaustive_evals = g_evals;
  const unsigned long long exhaustive_nontrivial = g_nontrivial;
  // non-member functions on every content
  for (std::size_t i = 0; i < cs.size () && ! g_fail.set; ++i)
    for (int v = 0; v < 3; ++v)
    {
      check_nonmembers<int, 0> ("int", cs[i], v, 2 + v);
      check_nonmembers<int, 3> ("int", cs[i], v, 2 + v);
      check_nonmembers<EqLt, 2> ("eqlt", cs[i], v, 2 + v);
      check_nonmembers<Ord, 5> ("ord", cs[i], v, 2 + v);
    }
  for (std::size_t i = 0; i < cs.size () && ! g_fail.set; ++i) hetero_suite (cs[i]);
  // random beyond the exhaustive bound
  if (! g_fail.set && mode != "exh")
  {
    char params[128];
    std::snprintf (params, sizeof params, "seed=%llu max_success=%u max_size=40", seed == 0 ? 1 : seed, cases);
    setenv ("RC_PARAMS", params, 1);
    Dg scratch;
    rc::Gen<std::vector<int> > gc = rc::gen::container<std::vector<int> > (rc::gen::resize (rc::kNominalSize, rc::gen::inRange (0, 4)));
    rc::check ("C16 random contents", [&] () {
      const std::vector<int> a = *gc;
      std::vector<int> b = *gc;
      const int how = *rc::gen::resize (rc::kNominalSize, rc::gen::inRange (0, 4));
      if (how == 0) b = a;                                      // equal
      if (how == 1 && ! a.empty ()) { b = a; b.back () = (b.back () + 1) % 4; }   // differ in the last position
      if (how == 2) { b = a; b.resize (b.size () / 2); }        // proper prefix
      const int v = *rc::gen::resize (rc::kNominalSize, rc::gen::inRange (0, 4));
      compare_all_caps<int> ("int", a, b, true, scratch);
      compare_all_caps<EqLt> ("eqlt", a, b, true, scratch);
      compare_all_caps<Ord> ("ord", a, b, true, scratch);
      compare_all_caps<double> ("double", a, b, false, scratch);
      compare_scalars (a, b, scratch);
      check_nonmembers<int, 3> ("int", a, v, 2 + v % 3);
      check_nonmembers<Ord, 0> ("ord", a, v, 2 + v % 3);
      check_nonmembers<double, 2> ("double", a, v, 2 + v % 3);
      hetero_suite (a);
      if (g_fail.set) RC_FAIL (g_fail.msg);
    });
  }
  if (g_fail.set && ! replay_out.empty ()) { std::ofstream f (replay_out.c_str ()); f << g_fail.replay << "what " << g_fail.msg << "\n"; }
  if (! out.empty ())
  {
    std::ofstream f (out.c_str ());
    f << "{\"std\": " << __cplusplus << ", \"evaluations\": " << g_evals << ", \"exhaustive_evaluations\": " << exhaustive_evals
      << ", \"nontrivial\": " << g_nontrivial << ", \"nontrivial_exhaustive\": " << exhaustive_nontrivial
      << ", \"table_int\": \"" << t_int.h << "\", \"table_eqlt\": \"" << t_eqlt.h << "\", \"table_ord\": \"" << t_ord.h << "\", \"table_double\": \"" << t_dbl.h << "\""
      << ", \"samples\": [";
    for (std::size_t i = 0; i < g_samples.size (); ++i) f << (i ? ", " : "") << "\"" << g_samples[i] << "\"";
    f << "]";
    if (g_fail.set)
    {
      std::string r = g_fail.replay; for (std::size_t i = 0; i < r.size (); ++i) if (r[i] == '\n') r[i] = ';';
      f << ", \"failure\": {\"what\": \"" << g_fail.msg << "\", \"case\": \"" << r << "\"}";
    }
    f << ", \"end\": true}\n";
  }
  if (g_fail.set) { std::printf ("FAILURE %s\n%s", g_fail.msg.c_str (), g_fail.replay.c_str ()); return 1; }
  return 0;
}
