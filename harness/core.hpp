// core.hpp -- failure record, fault plan, element registry, allocator ledger.
// C++11-clean on purpose: the same sources are compiled under -std=c++11..23 (C17).
// Nothing here includes small_vector.hpp.
#ifndef VH_CORE_HPP
#define VH_CORE_HPP

#include <cstdarg>
#include <cstddef>
#include <cstdint>
#include <cstdio>
#include <cstdlib>
#include <cstring>
#include <map>
#include <string>
#include <unordered_map>
#include <vector>

namespace vh
{

  // ------------------------------------------------------------------ failure record
  // Oracles never abort: they record the first failing clause and the interpreter
  // notices it after the operation.  (The element types only hold an int, so running on
  // after a lifetime violation is memory safe; real memory errors are ASan's business.)
  struct Failure
  {
    bool        set;
    std::string clause;
    std::string detail;
    Failure () : set (false) { }
  };

  inline Failure& failure () { static Failure f; return f; }

  inline void
  fail (const char *clause, const char *fmt, ...)
  {
    Failure& f = failure ();
    if (f.set)
      return;
    char buf[512];
    va_list ap;
    va_start (ap, fmt);
    std::vsnprintf (buf, sizeof buf, fmt, ap);
    va_end (ap);
    f.set    = true;
    f.clause = clause;
    f.detail = buf;
  }

  inline void clear_failure () { Failure& f = failure (); f.set = false; f.clause.clear (); f.detail.clear (); }

  // ------------------------------------------------------------------ fault plan
  enum FaultLabel
  {
    F_COPY_CTOR = 0, F_MOVE_CTOR, F_DEFAULT_CTOR, F_VALUE_CTOR,
    F_COPY_ASSIGN, F_MOVE_ASSIGN, F_SWAP,
    F_ALLOC, F_IT_DEREF, F_IT_INC, F_GEN, F_COMPARE,
    F_NLABELS
  };

  inline const char *
  fault_label_name (int l)
  {
    static const char *names[] = { "elem_copy_ctor", "elem_move_ctor", "elem_default_ctor",
                                   "elem_value_ctor", "elem_copy_assign", "elem_move_assign",
                                   "elem_swap", "allocate", "iter_deref", "iter_inc", "gen_call",
                                   "elem_compare" };
    return (0 <= l && l < F_NLABELS) ? names[l] : "?";
  }

  static const unsigned MASK_CTORS = (1u << F_COPY_CTOR) | (1u << F_MOVE_CTOR)
                                   | (1u << F_DEFAULT_CTOR) | (1u << F_VALUE_CTOR);
  static const unsigned MASK_C05   = MASK_CTORS | (1u << F_ALLOC);
  static const unsigned MASK_ALL   = (1u << F_NLABELS) - 1u;

  // Thrown by an armed fault point.  Deliberately not derived from std::exception.
  struct InjectedFault
  {
    int      label;
    unsigned serial;
  };

  struct FaultPlan
  {
    bool     window;       // only events inside an operation window are eligible
    unsigned mask;         // eligible labels
    unsigned count;        // eligible events seen in the window so far
    unsigned arm_k;        // throw at the k-th eligible event (0: never)
    unsigned arm_j;        // and again at the j-th eligible event after that (0: never)
    unsigned fired;        // faults thrown so far
    unsigned in_flight;    // element operations begun but not finished (diagnostic)
    std::vector<unsigned char> labels;   // label of each eligible event, in order
    unsigned count_at_first_fire;
    FaultPlan () : window (false), mask (MASK_ALL), count (0), arm_k (0), arm_j (0), fired (0),
                   in_flight (0), count_at_first_fire (0) { }
    void reset ()
    {
      window = false; mask = MASK_ALL; count = 0; arm_k = 0; arm_j = 0; fired = 0; in_flight = 0;
      labels.clear (); count_at_first_fire = 0;
    }
  };

  inline FaultPlan& plan () { static FaultPlan p; return p; }

  inline void
  fault_point (int label)
  {
    FaultPlan& p = plan ();
    if (! p.window || ! ((p.mask >> label) & 1u))
      return;
    ++p.count;
    p.labels.push_back (static_cast<unsigned char> (label));
    if (p.arm_k != 0 && p.fired == 0 && p.count == p.arm_k)
    {
      p.fired = 1;
      p.count_at_first_fire = p.count;
      InjectedFault f = { label, p.count };
      throw f;
    }
    if (p.arm_j != 0 && p.fired == 1 && p.count == p.count_at_first_fire + p.arm_j)
    {
      p.fired = 2;
      InjectedFault f = { label, p.count };
      throw f;
    }
  }

  struct PlanWindow
  {
    PlanWindow ()  { plan ().window = true;  }
    ~PlanWindow () { plan ().window = false; }
  };

  // ------------------------------------------------------------------ element registry
  enum ElemEvent
  {
    EV_CONSTRUCT = 0,   // object came to life at addr
    EV_READ_COPY,       // addr was the source of a copy construction / copy assignment
    EV_READ_MOVE,       // addr was the source of a move construction / move assignment
    EV_ASSIGN_TO,       // addr was assigned to
    EV_DESTROY,
    EV_COMPARE
  };

  struct Registry
  {
    struct Obj { unsigned char moved; };
    struct Event { const void *addr; unsigned char kind; };

    bool                                   enabled;
    std::unordered_map<const void *, Obj>  live;
    unsigned long long                     constructed;
    unsigned long long                     destroyed;
    std::vector<Event>                     events;      // events of the current epoch
    bool                                   log_events;

    Registry () : enabled (true), constructed (0), destroyed (0), log_events (true) { }

    void reset ()
    {
      live.clear (); constructed = 0; destroyed = 0; events.clear (); enabled = true; log_events = true;
    }

    void new_epoch () { events.clear (); }

    void note (const void *a, int kind)
    {
      if (log_events)
      {
        Event e = { a, static_cast<unsigned char> (kind) };
        events.push_back (e);
      }
    }

    void on_construct (const void *a)
    {
      if (! enabled) return;
      if (live.find (a) != live.end ())
        fail ("lifetime.construct_over_live", "an element was constructed at %p which already holds a live element", a);
      Obj o = { 0 };
      live[a] = o;
      ++constructed;
      note (a, EV_CONSTRUCT);
    }

    void on_destroy (const void *a)
    {
      if (! enabled) return;
      std::unordered_map<const void *, Obj>::iterator it = live.find (a);
      if (it == live.end ())
        fail ("lifetime.destroy_dead", "destructor ran at %p which holds no live element (double destroy or raw storage)", a);
      else
        live.erase (it);
      ++destroyed;
      note (a, EV_DESTROY);
    }

    // `a` is read as the source of a copy (moving == false) or of a move.
    void on_read (const void *a, bool moving)
    {
      if (! enabled) return;
      std::unordered_map<const void *, Obj>::iterator it = live.find (a);
      if (it == live.end ())
        fail ("lifetime.read_dead", "an element at %p was read (copied/moved from) but no live element is there", a);
      else if (moving)
        it->second.moved = 1;
      note (a, moving ? EV_READ_MOVE : EV_READ_COPY);
    }

    void on_assign_to (const void *a)
    {
      if (! enabled) return;
      std::unordered_map<const void *, Obj>::iterator it = live.find (a);
      if (it == live.end ())
        fail ("lifetime.assign_dead", "an element at %p was assigned to but no live element is there", a);
      else
        it->second.moved = 0;
      note (a, EV_ASSIGN_TO);
    }

    void on_compare (const void *a)
    {
      if (! enabled) return;
      if (live.find (a) == live.end ())
        fail ("lifetime.read_dead", "an element at %p was compared but no live element is there", a);
      note (a, EV_COMPARE);
    }

    bool is_live (const void *a) const { return live.find (a) != live.end (); }

    // number of events of the given kinds (bit mask over ElemEvent) on [lo, hi) this epoch
    unsigned events_in (const void *lo, const void *hi, unsigned kinds = ~0u) const
    {
      unsigned n = 0;
      for (std::size_t i = 0; i < events.size (); ++i)
        if (lo <= events[i].addr && events[i].addr < hi && ((kinds >> events[i].kind) & 1u))
          ++n;
      return n;
    }

    unsigned events_at (const void *a, unsigned kinds = ~0u) const
    {
      unsigned n = 0;
      for (std::size_t i = 0; i < events.size (); ++i)
        if (events[i].addr == a && ((kinds >> events[i].kind) & 1u))
          ++n;
      return n;
    }
  };

  inline Registry& registry () { static Registry r; return r; }

  // ------------------------------------------------------------------ allocator ledger
  static const int SOCCC_BIT = 0x100;   // marks an allocator produced by select_on_container_copy_construction

  struct Ledger
  {
    struct Block { std::size_t n; std::size_t elem_size; int id; bool always_equal; };

    std::map<const void *, Block> live;
    unsigned long long            allocs;         // total allocate calls
    unsigned long long            deallocs;
    unsigned                      op_allocs;      // allocate calls in the current epoch
    unsigned                      op_deallocs;
    std::size_t                   op_max_n;       // largest n requested in the current epoch
    std::size_t                   max_n_ever;
    int                           op_last_alloc_id;
    std::vector<int>              op_alloc_ids;   // id of every allocate call this epoch
    std::vector<int>              op_dealloc_ids;

    Ledger () { reset (); }

    void reset ()
    {
      live.clear (); allocs = deallocs = 0; op_allocs = op_deallocs = 0; op_max_n = 0; max_n_ever = 0;
      op_last_alloc_id = 0; op_alloc_ids.clear (); op_dealloc_ids.clear ();
    }

    void new_epoch ()
    {
      op_allocs = op_deallocs = 0; op_max_n = 0; op_alloc_ids.clear (); op_dealloc_ids.clear ();
    }

    void on_allocate (const void *p, std::size_t n, std::size_t elem_size, int id, bool ae)
    {
      Block b = { n, elem_size, id, ae };
      if (live.find (p) != live.end ())
        fail ("ledger.duplicate_block", "allocate returned %p which is already live", p);
      live[p] = b;
      ++allocs; ++op_allocs;
      if (op_max_n < n) op_max_n = n;
      if (max_n_ever < n) max_n_ever = n;
      op_last_alloc_id = id;
      op_alloc_ids.push_back (id);
    }

    // returns true when the block was known (and may be freed)
    bool on_deallocate (const void *p, std::size_t n, int id)
    {
      ++deallocs; ++op_deallocs;
      op_dealloc_ids.push_back (id);
      std::map<const void *, Block>::iterator it = live.find (p);
      if (it == live.end ())
      {
        fail ("ledger.unknown_block", "deallocate (%p, %lu) of a block that is not live (double free or foreign pointer)",
              p, static_cast<unsigned long> (n));
        return false;
      }
      if (it->second.n != n)
        fail ("ledger.wrong_count", "deallocate (%p, %lu) but the block was allocated with n = %lu",
              p, static_cast<unsigned long> (n), static_cast<unsigned long> (it->second.n));
      if (! it->second.always_equal && (it->second.id & ~SOCCC_BIT) != (id & ~SOCCC_BIT))
        fail ("ledger.wrong_allocator", "block %p allocated by allocator id %d was deallocated through unequal allocator id %d",
              p, it->second.id & ~SOCCC_BIT, id & ~SOCCC_BIT);
      live.erase (it);
      return true;
    }

    const Block *find (const void *p) const
    {
      std::map<const void *, Block>::const_iterator it = live.find (p);
      return it == live.end () ? static_cast<const Block *> (0) : &it->second;
    }
  };

  inline Ledger& ledger () { static Ledger l; return l; }

  // reset everything that is global; called at the top of every case
  inline void
  reset_globals ()
  {
    clear_failure ();
    plan ().reset ();
    registry ().reset ();
    ledger ().reset ();
  }

  // 64-bit FNV-1a style mixing, used for digests and fingerprints
  struct Digest
  {
    unsigned long long h;
    Digest () : h (1469598103934665603ull) { }
    void add (unsigned long long x)
    {
      for (int i = 0; i < 8; ++i)
      {
        h ^= (x >> (8 * i)) & 0xffu;
        h *= 1099511628211ull;
      }
    }
  };

} // namespace vh

#endif
