// program.hpp -- the state-independent program representation shared by every engine
// (DESIGN.md §2.1, Appendix A).  C++11-clean, does not include small_vector.hpp.
#ifndef VH_PROGRAM_HPP
#define VH_PROGRAM_HPP

#include <cstdint>
#include <cstdio>
#include <cstdlib>
#include <cstring>
#include <sstream>
#include <string>
#include <vector>

namespace vh
{

  // X(name, needs_source, group)  -- numbering is the order of this list and must never
  // be reordered (replay files carry names, fuzz corpora carry numbers).
  // groups: G grow, S shrink, W whole-container, C construct, O observe, A alias, M macro
#define VH_OP_TABLE(X)          \
  X (push_back_copy,     0, 'G') \
  X (push_back_rv,       0, 'G') \
  X (emplace_back,       0, 'G') \
  X (pop_back,           0, 'S') \
  X (insert_copy,        0, 'G') \
  X (insert_rv,          0, 'G') \
  X (insert_count,       0, 'G') \
  X (insert_range,       0, 'G') \
  X (insert_ilist,       0, 'G') \
  X (emplace,            0, 'G') \
  X (erase_at,           0, 'S') \
  X (erase_range,        0, 'S') \
  X (clear,              0, 'S') \
  X (resize,             0, 'G') \
  X (resize_value,       0, 'G') \
  X (reserve,            0, 'G') \
  X (shrink_to_fit,      0, 'S') \
  X (assign_count,       0, 'W') \
  X (assign_range,       0, 'W') \
  X (assign_ilist,       0, 'W') \
  X (opassign_ilist,     0, 'W') \
  X (append_range,       0, 'G') \
  X (append_ilist,       0, 'G') \
  X (opassign_copy,      1, 'W') \
  X (opassign_move,      1, 'W') \
  X (assign_copy,        1, 'W') \
  X (assign_move,        1, 'W') \
  X (swap_member,        1, 'W') \
  X (swap_adl,           1, 'W') \
  X (append_copy,        1, 'G') \
  X (append_move,        1, 'G') \
  X (compare,            1, 'O') \
  X (ctor_default,       0, 'C') \
  X (ctor_alloc,         0, 'C') \
  X (ctor_count,         0, 'C') \
  X (ctor_count_value,   0, 'C') \
  X (ctor_gen,           0, 'C') \
  X (ctor_range,         0, 'C') \
  X (ctor_ilist,         0, 'C') \
  X (ctor_copy,          1, 'C') \
  X (ctor_move,          1, 'C') \
  X (dtor,               0, 'C') \
  X (at_valid,           0, 'O') \
  X (at_invalid,         0, 'O') \
  X (observe,            0, 'O') \
  X (iter_walk,          0, 'O') \
  X (push_back_alias,    0, 'A') \
  X (emplace_back_alias, 0, 'A') \
  X (insert_alias,       0, 'A') \
  X (insert_count_alias, 0, 'A') \
  X (emplace_alias,      0, 'A') \
  X (resize_alias,       0, 'A') \
  X (fill_to_capacity,   0, 'M') \
  X (grow_past_capacity, 0, 'M') \
  X (erase_to_inline_then_shrink, 0, 'M') \
  X (nm_erase,           0, 'S') \
  X (nm_erase_if,        0, 'S')

  enum OpKind
  {
#define VH_X(name, src, grp) OP_##name,
    VH_OP_TABLE (VH_X)
#undef VH_X
    OP_COUNT
  };

  inline const char *
  op_name (int k)
  {
    static const char *names[] = {
#define VH_X(name, src, grp) #name,
      VH_OP_TABLE (VH_X)
#undef VH_X
      "?" };
    return (0 <= k && k < OP_COUNT) ? names[k] : "?";
  }

  inline bool
  op_needs_source (int k)
  {
    static const unsigned char t[] = {
#define VH_X(name, src, grp) src,
      VH_OP_TABLE (VH_X)
#undef VH_X
      0 };
    return (0 <= k && k < OP_COUNT) ? t[k] != 0 : false;
  }

  inline char
  op_group (int k)
  {
    static const char t[] = {
#define VH_X(name, src, grp) grp,
      VH_OP_TABLE (VH_X)
#undef VH_X
      0 };
    return (0 <= k && k < OP_COUNT) ? t[k] : '?';
  }

  inline int
  op_by_name (const std::string& s)
  {
    for (int k = 0; k < OP_COUNT; ++k)
      if (s == op_name (k))
        return k;
    return -1;
  }

  // One operation.  Every argument is relative (resolved against the current state by
  // the interpreter), so any program is valid in any state.
  //   t: target slot (0,1: capacity N; 2,3: capacity M)      s: source slot
  //   a: position / index selector       b: count / length selector
  //   c: bits 0-3 range kind / misc, bits 4-5 count mode, bit 6 allocator id, bit 7 allocator-extended overload
  //   d: value selector
  struct Op
  {
    unsigned char kind, t, s, a, b, c, d;
  };

  struct Program
  {
    std::string     cfg;        // configuration name
    std::vector<Op> ops;
    unsigned        fault_k;    // fault engine: armed point (0: none)
    unsigned        fault_j;
    std::string     property;   // informational
    std::string     mode;       // "" (default), "small" (C04 small-only), "long" (C14 long run)
    Program () : fault_k (0), fault_j (0) { }
  };

  inline std::string
  to_text (const Program& p)
  {
    std::ostringstream o;
    o << "verif-replay 1\n";
    if (! p.property.empty ()) o << "property " << p.property << "\n";
    o << "cfg " << p.cfg << "\n";
    if (! p.mode.empty ()) o << "mode " << p.mode << "\n";
    if (p.fault_k != 0) o << "fault k=" << p.fault_k << " j=" << p.fault_j << "\n";
    for (std::size_t i = 0; i < p.ops.size (); ++i)
    {
      const Op& x = p.ops[i];
      o << "op " << op_name (x.kind) << " t=" << unsigned (x.t) << " s=" << unsigned (x.s)
        << " a=" << unsigned (x.a) << " b=" << unsigned (x.b) << " c=" << unsigned (x.c)
        << " d=" << unsigned (x.d) << "\n";
    }
    return o.str ();
  }

  inline bool
  from_text (const std::string& text, Program& p, std::string& err)
  {
    std::istringstream in (text);
    std::string line;
    p = Program ();
    bool header = false;
    while (std::getline (in, line))
    {
      std::string::size_type h = line.find ('#');
      if (h != std::string::npos) line.erase (h);
      std::istringstream ls (line);
      std::string w;
      if (! (ls >> w)) continue;
      if (w == "verif-replay") { header = true; continue; }
      if (w == "property") { ls >> p.property; continue; }
      if (w == "engine")   { std::string e; ls >> e; continue; }
      if (w == "cfg")      { ls >> p.cfg; continue; }
      if (w == "mode")     { ls >> p.mode; continue; }
      if (w == "fault")
      {
        std::string kv;
        while (ls >> kv)
        {
          if (kv.compare (0, 2, "k=") == 0) p.fault_k = static_cast<unsigned> (std::atoi (kv.c_str () + 2));
          if (kv.compare (0, 2, "j=") == 0) p.fault_j = static_cast<unsigned> (std::atoi (kv.c_str () + 2));
        }
        continue;
      }
      if (w == "op")
      {
        std::string name;
        ls >> name;
        int k = op_by_name (name);
        if (k < 0) { err = "unknown op " + name; return false; }
        Op x; std::memset (&x, 0, sizeof x);
        x.kind = static_cast<unsigned char> (k);
        std::string kv;
        while (ls >> kv)
        {
          if (kv.size () < 3 || kv[1] != '=') continue;
          unsigned char val = static_cast<unsigned char> (std::atoi (kv.c_str () + 2));
          switch (kv[0])
          {
            case 't': x.t = val; break;
            case 's': x.s = val; break;
            case 'a': x.a = val; break;
            case 'b': x.b = val; break;
            case 'c': x.c = val; break;
            case 'd': x.d = val; break;
            default: break;
          }
        }
        p.ops.push_back (x);
        continue;
      }
      err = "unknown line: " + line;
      return false;
    }
    if (! header) { err = "missing verif-replay header"; return false; }
    return true;
  }

  inline bool
  read_file (const char *path, std::string& out)
  {
    std::FILE *f = std::fopen (path, "rb");
    if (! f) return false;
    char buf[4096];
    std::size_t n;
    out.clear ();
    while ((n = std::fread (buf, 1, sizeof buf, f)) > 0)
      out.append (buf, n);
    std::fclose (f);
    return true;
  }

  inline bool
  write_file (const char *path, const std::string& s)
  {
    std::FILE *f = std::fopen (path, "wb");
    if (! f) return false;
    std::fwrite (s.data (), 1, s.size (), f);
    std::fclose (f);
    return true;
  }

  // ------------------------------------------------------------------ run interface
  // What a configuration TU exports and the drivers (rapidcheck, libFuzzer, replay) call.
  enum Probe
  {
    PR_C01 = 1u << 0,  PR_C02 = 1u << 1,  PR_C03 = 1u << 2,  PR_C04 = 1u << 3,
    PR_C05 = 1u << 4,  PR_C06 = 1u << 5,  PR_C07 = 1u << 6,  PR_C09 = 1u << 7,
    PR_C10 = 1u << 8,  PR_C11 = 1u << 9,  PR_C12 = 1u << 10, PR_C13 = 1u << 11,
    PR_C14 = 1u << 12, PR_C15 = 1u << 13, PR_C16 = 1u << 14, PR_C18 = 1u << 15,
    PR_TRACE = 1u << 20,  // record the full observation trace digest (C13 twin, C17)
    PR_TRACE_ALLOCS = 1u << 21   // also mix allocate counts into the trace (C13 twin only)
  };

  struct RunOptions
  {
    unsigned probes;
    unsigned max_size;       // cap on container sizes reached by a program
    bool     fault_mode;     // last op is the operation under test
    unsigned fault_k, fault_j;
    unsigned fault_mask;
    bool     small_only;     // C04: clamp everything so that size never exceeds N
    bool     verbose;
    unsigned long long_n;   // C14: after the program, append this many elements one at a time to slot 0
    RunOptions () : probes (0), max_size (96), fault_mode (false), fault_k (0), fault_j (0),
                    fault_mask (0), small_only (false), verbose (false), long_n (0) { }
  };

  // class flags of a finished run, used for non-triviality rules and histograms
  enum RunFlag
  {
    RF_INLINE_TO_HEAP   = 1u << 0,   // some slot went inline -> heap
    RF_HEAP_TO_INLINE   = 1u << 1,   // some slot went heap -> inline (shrink, steal, assign)
    RF_MID_MUTATION_AFTER_TRANSITION = 1u << 2,
    RF_REALLOC          = 1u << 3,
    RF_MID_SHIFT        = 1u << 4,
    RF_WHOLE_TRANSFER   = 1u << 5,
    RF_UNEQUAL_ALLOC_OP = 1u << 6,   // two-container op with unequal ids, one side heap
    RF_STEAL            = 1u << 7,
    RF_STEAL_CROSS      = 1u << 8,   // steal premise true with N != M
    RF_NOSTEAL_SMALLBUF = 1u << 9,   // premise false because N_dest >= src.capacity > N_src
    RF_BOUNDARY_OP      = 1u << 10,  // op landed within +-1 of the capacity boundary
    RF_RESERVE_EQ       = 1u << 11,
    RF_ALIAS_SHIFTED    = 1u << 12,  // alias source in the shifted part or call reallocated
    RF_ALIAS_TAIL_LT    = 1u << 13,
    RF_ALIAS_TAIL_GE    = 1u << 14,
    RF_GEOMETRIC_EDGE   = 1u << 15,  // realloc whose requirement was <= 1.5 * old capacity
    RF_INPUT_CROSS_REALLOC = 1u << 16,
    RF_INPUT_ASSIGN_DIFF   = 1u << 17,
    RF_INPUT_INSERT_MID    = 1u << 18,
    RF_MULTI_OWNER      = 1u << 19,  // a heap buffer has had >= 2 owners
    RF_FITS_AT_EDGE     = 1u << 20,  // "fits" premise with size == capacity - {0,1}
    RF_MEMMOVE_MID      = 1u << 21,
    RF_CONTIG_RANGE     = 1u << 22,
    RF_REPR_3CLASSES    = 1u << 23,  // a slot passed through >= 3 representation classes
    RF_STOLEN_FROM      = 1u << 24,
    RF_ELEMWISE_MOVED_FROM = 1u << 25,
    RF_COMPARE          = 1u << 26,
    RF_ALWAYS_EQUAL_MOVE = 1u << 27,
    RF_ITER_DEREF       = 1u << 28,
    RF_SMALL_ONLY_FULL  = 1u << 29   // small-only program that filled the inline buffer completely
  };

  struct RunResult
  {
    bool               failed;
    std::string        clause;
    std::string        detail;
    int                failing_op;      // index of the op after which the failure was seen
    unsigned long long digest;          // observation trace digest (PR_TRACE)
    unsigned           flags;           // RunFlag bits
    unsigned           steps;           // ops executed
    unsigned           skipped;         // ops skipped (flavour cannot express / empty container)
    // fault engine
    unsigned           fault_points;    // eligible points counted in the final op
    bool               fault_fired;
    bool               fault_fired_second;
    int                fault_label;
    bool               fault_nontrivial;
    bool               strong_expected;
    int                final_op_kind;
    std::vector<unsigned char> fault_labels;
    unsigned           noexcept_points; // C18: eligible points seen inside an op declared noexcept
    unsigned long      long_reallocations, long_relocated;
    RunResult () : failed (false), failing_op (-1), digest (0), flags (0), steps (0), skipped (0),
                   fault_points (0), fault_fired (false), fault_fired_second (false), fault_label (-1),
                   fault_nontrivial (false), strong_expected (false), final_op_kind (-1), noexcept_points (0), long_reallocations (0), long_relocated (0) { }
  };

  typedef void (*RunFn) (const Program&, const RunOptions&, RunResult&);

  struct ConfigEntry
  {
    const char *name;
    const char *flavour;
    unsigned    n, m;
    const char *alloc;      // "std" or "TA(c,m,s,ae)"
    bool        copyable;
    bool        tracked_elems;
    bool        tracked_alloc;
    RunFn       run;
    const char *twin;       // name of the TRIV/NT twin configuration or ""
  };

  // registry of configurations linked into the binary
  inline std::vector<ConfigEntry>& configs () { static std::vector<ConfigEntry> v; return v; }

  inline const ConfigEntry *
  find_config (const std::string& name)
  {
    for (std::size_t i = 0; i < configs ().size (); ++i)
      if (name == configs ()[i].name)
        return &configs ()[i];
    return 0;
  }

  struct ConfigRegistrar
  {
    explicit ConfigRegistrar (const ConfigEntry& e) { configs ().push_back (e); }
  };

} // namespace vh

#endif
