// checker.hpp -- property table, statistics and the per-case checker shared by the
// rapidcheck driver (hist_main.cpp) and the libFuzzer target (fuzz_hist.cpp).
#ifndef VH_CHECKER_HPP
#define VH_CHECKER_HPP

#include "core.hpp"
#include "program.hpp"

#include <algorithm>
#include <map>
#include <string>
#include <unordered_set>
#include <vector>

using namespace vh;

static const Program *g_current = 0;

// ---------------------------------------------------------------------- property table
struct PropSpec
{
  const char *name;
  unsigned    probes;
  unsigned    need_all;     // non-trivial: all of these flags ...
  unsigned    need_any;     // ... and (if non-zero) any of these
  const char *profile;      // generator weight profile
  bool        fault;        // uses the fault engine
  unsigned    fault_mask;
  const char *rule;
};

static const PropSpec PROPS[] = {
  { "C01", PR_C01, RF_MID_MUTATION_AFTER_TRANSITION, RF_INLINE_TO_HEAP | RF_HEAP_TO_INLINE, "mix", false, 0,
    "history contains an inline->heap or heap->inline transition and a mid-sequence insert/erase after it" },
  { "C02", PR_C02 | PR_C01, RF_REPR_3CLASSES, 0, "whole", false, 0,
    "a slot passed through >= 3 representation classes {fresh-inline, heap, shrunk-back-inline, stolen-from, element-wise-moved-from, post-throw}" },
  { "C03", PR_C03 | PR_C01, RF_REALLOC | RF_MID_SHIFT | RF_WHOLE_TRANSFER, 0, "mix", false, 0,
    "history contains >= 1 reallocation, >= 1 mid-sequence shift and >= 1 whole-container transfer" },
  { "C04", PR_C04 | PR_C01 | PR_C02, 0, RF_MULTI_OWNER | RF_FITS_AT_EDGE | RF_SMALL_ONLY_FULL, "whole", false, 0,
    "a heap buffer had >= 2 owners, or an op met the 'fits' premise with size within 1 of capacity (small-only mode: the inline buffer was filled completely)" },
  { "C05", PR_C05 | PR_C02, 0, 0, "mix", true, MASK_C05,
    "the injected fault fired after at least one element had been constructed/relocated or a block allocated inside the call" },
  { "C06", PR_C06 | PR_C02 | PR_C03 | PR_C04, 0, 0, "mix", true, MASK_ALL,
    "the injected fault fired after at least one earlier eligible event inside the call, or a second fault fired inside roll-back code" },
  { "C07", PR_C07 | PR_C01 | PR_C02 | PR_C04, RF_UNEQUAL_ALLOC_OP, 0, "whole", false, 0,
    "a copy/move/swap/assign between containers with unequal allocator ids where at least one side is heap" },
  { "C09", PR_C09 | PR_C01 | PR_C02, 0, RF_STEAL_CROSS | RF_NOSTEAL_SMALLBUF, "whole", false, 0,
    "steal premise true across different inline capacities, or false because N_dest >= source.capacity() > N_source" },
  { "C10", PR_C10 | PR_C01, 0, RF_BOUNDARY_OP | RF_RESERVE_EQ, "grow", false, 0,
    "an op landed within +-1 of the capacity boundary, or reserve(n) with n == capacity()" },
  { "C11", PR_C11 | PR_C01, RF_ALIAS_SHIFTED, 0, "alias", false, 0,
    "aliased element lies in the shifted part (i >= pos) or the aliasing call reallocated" },
  { "C13", PR_C13 | PR_C01 | PR_C02 | PR_TRACE | PR_TRACE_ALLOCS, RF_MEMMOVE_MID | RF_CONTIG_RANGE, 0, "mix", false, 0,
    "program contains a mid-sequence erase/insert (memmove paths) and a range op from a contiguous source (memcpy paths)" },
  { "C14", PR_C14 | PR_C01, RF_GEOMETRIC_EDGE, 0, "grow", false, 0,
    "a reallocating call whose required capacity was <= 1.5x the old capacity (where linear and geometric growth differ)" },
  { "C15", PR_C15 | PR_C01, 0, RF_INPUT_CROSS_REALLOC | RF_INPUT_ASSIGN_DIFF | RF_INPUT_INSERT_MID, "input", false, 0,
    "single-pass range longer than the free capacity, or assign from a single-pass range of different length, or single-pass insert mid-sequence" },
  { "C16", PR_C16 | PR_C01, RF_COMPARE, 0, "compare", false, 0,
    "history contains a comparison between two slots" },
  { "C17", PR_C01 | PR_C02 | PR_TRACE, 0, RF_CONTIG_RANGE | RF_ALWAYS_EQUAL_MOVE | RF_COMPARE | RF_ITER_DEREF, "mix", false, 0,
    "program exercises a contiguous foreign iterator, an always-equal allocator move/swap, a comparison or an iterator dereference" },
  { "C18", PR_C18 | PR_C02, 0, 0, "whole", true, MASK_ALL,
    "fault injected into an operation that is not declared noexcept, after at least one earlier eligible event" },
};

static const PropSpec *
find_prop (const std::string& n)
{
  for (unsigned i = 0; i < sizeof PROPS / sizeof PROPS[0]; ++i)
    if (n == PROPS[i].name) return &PROPS[i];
  return 0;
}

// ---------------------------------------------------------------------- statistics
struct Stats
{
  unsigned long long cases, executions, steps, skipped, shrink_execs;
  std::unordered_set<unsigned long long> nontrivial;
  std::map<std::string, unsigned long long> classes;
  std::vector<std::string> samples;
  std::vector<std::string> nontrivial_samples;
  unsigned long long fault_points, faults_injected, faults_second, strong_checked;
  std::map<std::string, unsigned long long> fault_labels;
  std::map<std::string, unsigned long long> final_ops;
  Stats () : cases (0), executions (0), steps (0), skipped (0), shrink_execs (0), fault_points (0),
             faults_injected (0), faults_second (0), strong_checked (0) { }
};

static const char *FLAG_NAMES[] = {
  "inline_to_heap", "heap_to_inline", "mid_mutation_after_transition", "realloc", "mid_shift", "whole_transfer",
  "unequal_alloc_op", "steal", "steal_cross_capacity", "nosteal_small_buffer", "boundary_op", "reserve_eq_capacity",
  "alias_shifted", "alias_tail_lt_n", "alias_tail_ge_n", "geometric_edge", "input_cross_realloc", "input_assign_diff_len",
  "input_insert_mid", "multi_owner_buffer", "fits_at_edge", "memmove_mid", "contiguous_range", "repr_3_classes",
  "stolen_from", "elementwise_moved_from", "compare", "always_equal_move", "iter_deref", "small_only_full" };

static unsigned long long
fingerprint (const Program& p)
{
  Digest d;
  for (std::size_t i = 0; i < p.cfg.size (); ++i) d.add (static_cast<unsigned char> (p.cfg[i]));
  for (std::size_t i = 0; i < p.ops.size (); ++i)
  {
    const Op& o = p.ops[i];
    d.add (o.kind | (o.t << 8) | (o.s << 16) | (static_cast<unsigned long long> (o.a) << 24)
           | (static_cast<unsigned long long> (o.b) << 32) | (static_cast<unsigned long long> (o.c) << 40)
           | (static_cast<unsigned long long> (o.d) << 48));
  }
  d.add (p.fault_k); d.add (p.fault_j);
  return d.h;
}

static std::string
json_escape (const std::string& s)
{
  std::string o;
  for (std::size_t i = 0; i < s.size (); ++i)
  {
    const char c = s[i];
    if (c == '"' || c == '\\') { o += '\\'; o += c; }
    else if (c == '\n') o += "\\n";
    else if (static_cast<unsigned char> (c) < 0x20) o += ' ';
    else o += c;
  }
  return o;
}

// ---------------------------------------------------------------------- one checked case
struct Checker
{
  const PropSpec    *prop;
  const ConfigEntry *cfg;
  const ConfigEntry *twin;
  RunOptions         base;
  std::string        mode;
  Stats              st;
  bool               have_failure;
  Program            failing;
  RunResult          failing_res;
  bool               shrinking;

  Checker () : prop (0), cfg (0), twin (0), have_failure (false), shrinking (false), long_n (0) { }

  bool nontrivial (const RunResult& r) const
  {
    if ((r.flags & prop->need_all) != prop->need_all) return false;
    if (prop->need_any != 0 && (r.flags & prop->need_any) == 0) return false;
    return true;
  }

  void account (const Program& p, const RunResult& r, bool nontriv)
  {
    ++st.executions;
    st.steps += r.steps; st.skipped += r.skipped;
    for (unsigned b = 0; b < sizeof FLAG_NAMES / sizeof FLAG_NAMES[0]; ++b)
      if (r.flags & (1u << b)) ++st.classes[FLAG_NAMES[b]];
    if (nontriv)
    {
      st.nontrivial.insert (fingerprint (p));
      if (st.nontrivial_samples.size () < 2 && p.ops.size () <= 14) st.nontrivial_samples.push_back (to_text (p));
    }
    if (st.samples.size () < 3 && p.ops.size () >= 3 && p.ops.size () <= 12 && (st.executions % 97) == 1) st.samples.push_back (to_text (p));
  }

  void record_failure (const Program& p, const RunResult& r)
  {
    have_failure = true;
    failing = p;
    failing_res = r;
  }

  // fault-free history check; returns false on an oracle failure
  unsigned long long_n;

  bool check_history (const std::vector<Op>& ops)
  {
    base.long_n = long_n;
    Program p; p.cfg = cfg->name; p.ops = ops; p.property = prop->name; p.mode = mode;
    if (long_n != 0) p.mode = "long:" + std::to_string (long_n);
    g_current = &p;
    RunResult r;
    cfg->run (p, base, r);
    account (p, r, nontrivial (r));
    if (r.failed) { record_failure (p, r); g_current = 0; return false; }
    if (twin != 0)
    {
      Program q = p; q.cfg = twin->name;
      g_current = &q;
      RunResult r2;
      twin->run (q, base, r2);
      ++st.executions;
      if (r2.failed) { record_failure (q, r2); g_current = 0; return false; }
      if (r2.digest != r.digest)
      {
        r2.failed = true; r2.clause = "twin.trace_differs";
        r2.detail = std::string ("observation trace of ") + cfg->name + " and its trivially-copyable twin " + twin->name + " differ";
        p.mode = "twin";
        record_failure (p, r2);
        g_current = 0;
        return false;
      }
    }
    g_current = 0;
    return true;
  }

  static bool has_handler (int kind)
  {
    switch (kind)
    {
      case OP_insert_copy: case OP_insert_rv: case OP_insert_count: case OP_insert_range: case OP_insert_ilist:
      case OP_emplace: case OP_assign_count: case OP_assign_range: case OP_assign_ilist: case OP_opassign_ilist:
      case OP_swap_member: case OP_swap_adl: case OP_insert_alias: case OP_insert_count_alias: case OP_emplace_alias:
      case OP_append_range: case OP_append_move: case OP_append_copy:
        return true;
      default:
        return false;
    }
  }

  // fault engine: prefix fault-free, then every single fault point of the last op
  bool check_faults (const std::vector<Op>& ops)
  {
    if (ops.empty ()) return true;
    Program p; p.cfg = cfg->name; p.ops = ops; p.property = prop->name; p.mode = mode;
    RunOptions o = base; o.fault_mode = true; o.fault_mask = prop->fault_mask;
    g_current = &p;
    RunResult r0;
    o.fault_k = 0; o.fault_j = 0;
    cfg->run (p, o, r0);
    ++st.executions; st.steps += r0.steps; st.skipped += r0.skipped;
    ++st.final_ops[op_name (ops.back ().kind)];
    if (r0.failed) { record_failure (p, r0); g_current = 0; return false; }
    st.fault_points += r0.fault_points;
    const unsigned P = r0.fault_points;
    for (unsigned k = 1; k <= P; ++k)
    {
      p.fault_k = k; p.fault_j = 0;
      o.fault_k = k; o.fault_j = 0;
      RunResult r;
      cfg->run (p, o, r);
      ++st.faults_injected;
      if (r.fault_label >= 0) ++st.fault_labels[fault_label_name (r.fault_label)];
      if (r.strong_expected) ++st.strong_checked;
      account (p, r, r.fault_fired && r.fault_nontrivial);
      if (r.failed) { record_failure (p, r); g_current = 0; return false; }
      if (! r.fault_fired) continue;
      if (prop->fault_mask == MASK_ALL && has_handler (ops.back ().kind))
        for (unsigned j = 1; j <= 6; ++j)
        {
          p.fault_j = j; o.fault_j = j;
          RunResult r2;
          cfg->run (p, o, r2);
          if (! r2.fault_fired_second) { if (r2.failed) { record_failure (p, r2); g_current = 0; return false; } break; }
          ++st.faults_second;
          account (p, r2, true);
          if (r2.failed) { record_failure (p, r2); g_current = 0; return false; }
        }
    }
    g_current = 0;
    return true;
  }
};


#endif
