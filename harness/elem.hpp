// elem.hpp -- instrumented element flavours (DESIGN.md §2.2).  C++11-clean.
#ifndef VH_ELEM_HPP
#define VH_ELEM_HPP

#include "core.hpp"

#include <type_traits>
#include <utility>

namespace vh
{

  struct HarnessTag { };

  static const int MOVED = -777;

  // A foreign value type: every element flavour is *explicitly* constructible from it but not
  // assignable from it, so ranges of Seed reach the "construct only" overloads of the library
  // (assign_with_range for non-assignable references, emplace-construction in insert/append).
  struct Seed { int v; };

  // Pieces shared by every tracked flavour.  DN/VN: default / value constructor is noexcept.
#define VH_ELEM_HEAD(Name, DN, VN)                                                             \
    int v;                                                                                     \
    Name () noexcept (DN) : v (0)                                                              \
    { if (! (DN)) fault_point (F_DEFAULT_CTOR); registry ().on_construct (this); }             \
    Name (int x, HarnessTag) noexcept : v (x) { registry ().on_construct (this); }             \
    Name (int x) noexcept (VN) : v (x)                                                         \
    { if (! (VN)) fault_point (F_VALUE_CTOR); registry ().on_construct (this); }               \
    explicit Name (const Seed& s) noexcept (VN) : v (s.v)                                      \
    { if (! (VN)) fault_point (F_VALUE_CTOR); registry ().on_construct (this); }               \
    ~Name () { registry ().on_destroy (this); }                                                \
    friend bool operator== (const Name& a, const Name& b)                                      \
    { registry ().on_compare (&a); registry ().on_compare (&b); return a.v == b.v; }           \
    friend bool operator!= (const Name& a, const Name& b) { return ! (a == b); }               \
    friend bool operator<  (const Name& a, const Name& b)                                      \
    { registry ().on_compare (&a); registry ().on_compare (&b); return a.v < b.v; }

#define VH_ELEM_COPY(Name, CN)                                                                 \
    Name (const Name& o) noexcept (CN) : v (o.v)                                               \
    { if (! (CN)) fault_point (F_COPY_CTOR);                                                   \
      registry ().on_read (&o, false); registry ().on_construct (this); }                      \
    Name& operator= (const Name& o) noexcept (CN)                                              \
    { if (! (CN)) fault_point (F_COPY_ASSIGN);                                                 \
      registry ().on_read (&o, false); registry ().on_assign_to (this); v = o.v; return *this; }

#define VH_ELEM_NOCOPY(Name)                                                                   \
    Name (const Name&) = delete;                                                               \
    Name& operator= (const Name&) = delete;

#define VH_ELEM_MOVE(Name, MN)                                                                 \
    Name (Name&& o) noexcept (MN) : v (o.v)                                                    \
    { if (! (MN)) fault_point (F_MOVE_CTOR);                                                   \
      registry ().on_read (&o, true); registry ().on_construct (this); o.v = MOVED; }          \
    Name& operator= (Name&& o) noexcept (MN)                                                   \
    { if (! (MN)) fault_point (F_MOVE_ASSIGN);                                                 \
      registry ().on_read (&o, true); registry ().on_assign_to (this);                         \
      int t = o.v; if (&o != this) o.v = MOVED; v = t; return *this; }

  // copy may throw, move is noexcept: the usual well-behaved class
  struct NT  { VH_ELEM_HEAD (NT,  false, false) VH_ELEM_COPY (NT,  false) VH_ELEM_MOVE (NT,  true)  };
  // copy may throw, move may throw: relocation must copy for the strong guarantee
  struct TM  { VH_ELEM_HEAD (TM,  false, false) VH_ELEM_COPY (TM,  false) VH_ELEM_MOVE (TM,  false) };
  // move-only, noexcept move
  struct MO  { VH_ELEM_HEAD (MO,  false, false) VH_ELEM_NOCOPY (MO)       VH_ELEM_MOVE (MO,  true)  };
  // move-only, throwing move (documented exclusion from the strong guarantee)
  struct MOT { VH_ELEM_HEAD (MOT, false, false) VH_ELEM_NOCOPY (MOT)      VH_ELEM_MOVE (MOT, false) };
  // copy-only: no move operations are declared, copies are used instead
  struct CO  { VH_ELEM_HEAD (CO,  false, false) VH_ELEM_COPY (CO,  false) };
  // everything noexcept
  struct NTA { VH_ELEM_HEAD (NTA, true,  true)  VH_ELEM_COPY (NTA, true)  VH_ELEM_MOVE (NTA, true)  };

  // trivially copyable twin: the header bypasses its constructors, so it is not tracked
  struct TRIV
  {
    int v;
    TRIV () = default;
    TRIV (int x) noexcept : v (x) { }
    explicit TRIV (const Seed& s) noexcept : v (s.v) { }
    TRIV (int x, HarnessTag) noexcept : v (x) { }
    friend bool operator== (const TRIV& a, const TRIV& b) { return a.v == b.v; }
    friend bool operator!= (const TRIV& a, const TRIV& b) { return a.v != b.v; }
    friend bool operator<  (const TRIV& a, const TRIV& b) { return a.v <  b.v; }
  };

  static_assert (std::is_trivially_copyable<TRIV>::value, "TRIV must be trivially copyable");
  static_assert (std::is_trivially_default_constructible<TRIV>::value, "TRIV must be trivially default constructible");
  static_assert (std::is_nothrow_move_constructible<NT>::value && ! std::is_nothrow_copy_constructible<NT>::value, "NT traits");
  static_assert (! std::is_nothrow_move_constructible<TM>::value, "TM traits");
  static_assert (! std::is_copy_constructible<MO>::value && std::is_nothrow_move_constructible<MO>::value, "MO traits");
  static_assert (! std::is_copy_constructible<MOT>::value && ! std::is_nothrow_move_constructible<MOT>::value, "MOT traits");

  template <typename E> struct ElemTraits;

#define VH_TRAITS(E, NAME, COPYABLE, TRACKED, TWIN)                                      \
  template <> struct ElemTraits<E>                                                       \
  {                                                                                      \
    typedef std::integral_constant<bool, COPYABLE> copyable;                             \
    typedef std::integral_constant<bool, TRACKED>  tracked;                              \
    static const char *name () { return NAME; }                                          \
  };

  VH_TRAITS (NT,   "NT",   true,  true,  0)
  VH_TRAITS (TM,   "TM",   true,  true,  0)
  VH_TRAITS (MO,   "MO",   false, true,  0)
  VH_TRAITS (MOT,  "MOT",  false, true,  0)
  VH_TRAITS (CO,   "CO",   true,  true,  0)
  VH_TRAITS (NTA,  "NTA",  true,  true,  0)
  VH_TRAITS (TRIV, "TRIV", true,  false, 0)

  template <typename E> inline int get_v (const E& e) { return e.v; }
  template <typename E> inline E   mk    (int x)      { return E (x, HarnessTag ()); }

} // namespace vh

#endif
