// conv_main.cpp -- C13 (part 2): elements built or assigned from a different but
// convertible type must equal static_cast<To>(source).  The same operations are run on
// the subject container and on std::vector<To> (differential) and every stored element is
// compared with static_cast<To> (src[i]).
//
// Compiled once with -DCONV_SUBJECT_GCH (subject = gch::small_vector<To, N>) and, when a
// compile probe is needed, with -DCONV_SUBJECT_STD (subject = std::vector<To>, N ignored).
// -DCONV_ONLY_PAIR=<k> restricts the TU to one pair (compile probes).
#include <gch/small_vector.hpp>

#ifndef CONV_NO_RAPIDCHECK
#  include <rapidcheck.h>
#endif

#include <cstdint>
#include <cstdio>
#include <cstdlib>
#include <cstring>
#include <deque>
#include <fstream>
#include <iterator>
#include <limits>
#include <list>
#include <string>
#include <type_traits>
#include <vector>

static unsigned long long g_evals = 0, g_nontrivial = 0;
static bool g_failed = false;
static std::string g_fail_text;
static std::vector<std::string> g_samples;
static const char *g_pair = "";

static void
conv_fail (const char *op, const char *kind, unsigned n, std::size_t idx)
{
  if (g_failed) return;
  g_failed = true;
  char b[300];
  std::snprintf (b, sizeof b, "pair %s, source iterator %s, operation %s, N=%u: element %lu differs from static_cast<To> (source)", g_pair, kind, op, n, static_cast<unsigned long> (idx));
  g_fail_text = b;
}

// ------------------------------------------------------------------ source iterator wrappers
template <typename T, typename Cat>
struct WrapIt
{
  typedef Cat iterator_category; typedef T value_type; typedef std::ptrdiff_t difference_type; typedef const T *pointer; typedef const T& reference;
  const T *p;
  WrapIt () : p (0) { }
  explicit WrapIt (const T *q) : p (q) { }
  const T& operator* () const { return *p; }
  const T *operator-> () const { return p; }
  WrapIt& operator++ () { ++p; return *this; }
  WrapIt operator++ (int) { WrapIt t (*this); ++p; return t; }
  friend bool operator== (const WrapIt& a, const WrapIt& b) { return a.p == b.p; }
  friend bool operator!= (const WrapIt& a, const WrapIt& b) { return a.p != b.p; }
};

template <typename To, unsigned N>
struct Subject
{
#ifdef CONV_SUBJECT_STD
  typedef std::vector<To> type;
#else
  typedef gch::small_vector<To, N> type;
#endif
};

template <typename V, typename To, typename From>
static bool
same (const V& v, const std::vector<To>& ref, const std::vector<From>& src_all, const std::vector<std::size_t>& origin)
{
  if (v.size () != ref.size ()) return false;
  for (std::size_t i = 0; i < ref.size (); ++i)
  {
    if (! (v[static_cast<typename V::size_type> (i)] == ref[i])) return false;
    if (origin[i] != static_cast<std::size_t> (-1) && ! (v[static_cast<typename V::size_type> (i)] == static_cast<To> (src_all[origin[i]]))) return false;
  }
  return true;
}

// runs every operation with the iterator pair (f, l) over src
template <typename To, unsigned N, typename From, typename It>
static void
run_ops (const char *kind, const std::vector<From>& src, It f, It l, const To& filler)
{
  typedef typename Subject<To, N>::type V;
  const std::size_t n = src.size ();
  std::vector<std::size_t> org_src;
  for (std::size_t i = 0; i < n; ++i) org_src.push_back (i);
  const std::size_t none = static_cast<std::size_t> (-1);
  // range constructor
  {
    V v (f, l);
    std::vector<To> ref (src.begin (), src.end ());
    ++g_evals;
    if (! same (v, ref, src, org_src)) conv_fail ("range constructor", kind, N, 0);
  }
  // assign from three starting states: empty, smaller-with-capacity, larger
  for (int state = 0; state < 3; ++state)
  {
    V v; std::vector<To> ref;
    const std::size_t pre = state == 0 ? 0 : (state == 1 ? n / 2 : n + 2);
    v.reserve (static_cast<typename V::size_type> (state == 1 ? n + 1 : 0));
    for (std::size_t i = 0; i < pre; ++i) { v.push_back (filler); ref.push_back (filler); }
    v.assign (f, l);
    ref.assign (src.begin (), src.end ());
    ++g_evals;
    if (! same (v, ref, src, org_src)) conv_fail ("assign", kind, N, 0);
  }
  // insert mid-sequence: tail < n (no realloc), tail >= n (no realloc), realloc
  for (int state = 0; state < 3; ++state)
  {
    V v; std::vector<To> ref;
    const std::size_t pre = state == 1 ? n + 2 : 2;
    if (state != 2) v.reserve (static_cast<typename V::size_type> (pre + n + 1));
    for (std::size_t i = 0; i < pre; ++i) { v.push_back (filler); ref.push_back (filler); }
    if (state == 2) v.shrink_to_fit ();
    const std::size_t pos = 1;
    v.insert (v.begin () + 1, f, l);
    ref.insert (ref.begin () + 1, src.begin (), src.end ());
    std::vector<std::size_t> org (ref.size (), none);
    for (std::size_t i = 0; i < n; ++i) org[pos + i] = i;
    ++g_evals;
    if (n != 0) ++g_nontrivial;
    if (! same (v, ref, src, org)) conv_fail (state == 0 ? "insert (tail < n)" : state == 1 ? "insert (tail >= n)" : "insert (reallocating)", kind, N, 0);
  }
  // insert at end
  {
    V v; std::vector<To> ref;
    v.push_back (filler); ref.push_back (filler);
    v.insert (v.end (), f, l);
    ref.insert (ref.end (), src.begin (), src.end ());
    std::vector<std::size_t> org (ref.size (), none);
    for (std::size_t i = 0; i < n; ++i) org[1 + i] = i;
    ++g_evals;
    if (! same (v, ref, src, org)) conv_fail ("insert at end", kind, N, 0);
  }
#ifndef CONV_SUBJECT_STD
  // append (extension)
  {
    V v; std::vector<To> ref;
    v.push_back (filler); ref.push_back (filler);
    v.append (f, l);
    ref.insert (ref.end (), src.begin (), src.end ());
    std::vector<std::size_t> org (ref.size (), none);
    for (std::size_t i = 0; i < n; ++i) org[1 + i] = i;
    ++g_evals;
    if (! same (v, ref, src, org)) conv_fail ("append", kind, N, 0);
  }
#endif
}

template <typename To, unsigned N, typename From>
static void
run_pair_n (const std::vector<From>& src, const To& filler)
{
  typedef typename Subject<To, N>::type V;
  const From *b = src.empty () ? static_cast<const From *> (0) : &src[0];
  const From *e = b + src.size ();
  std::vector<From> copy (src);
  From *mb = copy.empty () ? static_cast<From *> (0) : &copy[0];
  run_ops<To, N> ("const From*", src, b, e, filler);
  run_ops<To, N> ("From*", src, mb, mb + copy.size (), filler);
  run_ops<To, N> ("std::vector<From>::iterator", src, copy.begin (), copy.end (), filler);
  run_ops<To, N> ("std::vector<From>::const_iterator", src, src.begin (), src.end (), filler);
  {
    gch::small_vector<From, 3> sv (src.begin (), src.end ());
    run_ops<To, N> ("small_vector<From,3>::iterator", src, sv.begin (), sv.end (), filler);
    const gch::small_vector<From, 3>& csv = sv;
    run_ops<To, N> ("small_vector<From,3>::const_iterator", src, csv.begin (), csv.end (), filler);
  }
  run_ops<To, N> ("move_iterator<From*>", src, std::make_move_iterator (mb), std::make_move_iterator (mb + copy.size ()), filler);
  run_ops<To, N> ("input iterator", src, WrapIt<From, std::input_iterator_tag> (b), WrapIt<From, std::input_iterator_tag> (e), filler);
  run_ops<To, N> ("forward iterator", src, WrapIt<From, std::forward_iterator_tag> (b), WrapIt<From, std::forward_iterator_tag> (e), filler);
  {
    std::list<From> li (src.begin (), src.end ());
    run_ops<To, N> ("std::list<From>::iterator", src, li.begin (), li.end (), filler);
    std::deque<From> dq (src.begin (), src.end ());
    run_ops<To, N> ("std::deque<From>::iterator", src, dq.begin (), dq.end (), filler);
  }
  // single elements: emplace_back (From), emplace (mid, From), in-capacity and reallocating
  for (int state = 0; state < 2; ++state)
    for (std::size_t i = 0; i < src.size (); ++i)
    {
      V v; std::vector<To> ref;
      if (state == 0) v.reserve (4);
      v.push_back (filler); ref.push_back (filler);
      v.push_back (filler); ref.push_back (filler);
      if (state == 1) v.shrink_to_fit ();
      v.emplace_back (src[i]); ref.emplace_back (src[i]);
      if (state == 1) v.shrink_to_fit ();
      v.emplace (v.begin () + 1, src[i]); ref.emplace (ref.begin () + 1, src[i]);
      ++g_evals;
      if (v.size () != 4 || ! (v[3] == static_cast<To> (src[i])) || ! (v[1] == static_cast<To> (src[i])) || ! (v[3] == ref[3]) || ! (v[1] == ref[1]))
        conv_fail ("emplace_back / emplace with a From argument", "value", N, i);
    }
}

template <typename From, typename To>
static void
run_pair (const char *name, const std::vector<From>& src, const To& filler)
{
  g_pair = name;
  run_pair_n<To, 0> (src, filler);
  run_pair_n<To, 4> (src, filler);
  if (g_samples.size () < 6 && ! src.empty ())
  {
    g_samples.push_back (std::string (name) + ": " + std::to_string (src.size ()) + " source values, 11 iterator kinds x {ctor, assign x3, insert x4, append} + emplace, N in {0,4}");
  }
}

// ------------------------------------------------------------------ value sources
template <typename From>
static std::vector<From>
boundary_ints ()
{
  std::vector<From> v;
  typedef std::numeric_limits<From> L;
  const From xs[] = { From (0), From (1), From (2), L::max (), L::min (), From (L::max () - 1), From (L::max () / 2), From (L::max () / 2 + 1), From (127), From (128) };
  for (unsigned i = 0; i < sizeof xs / sizeof xs[0]; ++i) v.push_back (xs[i]);
  if (std::is_signed<From>::value) { v.push_back (static_cast<From> (-1)); v.push_back (static_cast<From> (-128)); v.push_back (static_cast<From> (L::min () + 1)); }
  return v;
}

struct B1 { int a; virtual ~B1 () { } };
struct B2 { int b; virtual ~B2 () { } };
struct Der : B1, B2 { int c; };
enum UE8 : unsigned char { ue_a = 0, ue_b = 7, ue_c = 255 };
enum UE32 : int { ue32_a = -5, ue32_b = 0, ue32_c = 123456 };
enum class SE : short { a = -3, b = 0, c = 300 };

static Der g_ders[4];
// standard-layout bases at a non-zero offset inside classes that are not standard-layout themselves:
// the second plain base of a multiple-inheritance class, the plain base of a polymorphic class, a virtual base
struct P1 { int a; };
struct P2 { int b; };
struct PD : P1, P2 { int c; };
struct NB { int x; };
struct Poly : NB { int y; virtual ~Poly () { } };
struct VB { int v; };
struct VD : virtual VB { int d; };
static PD   g_pds[4];
static Poly g_polys[4];
static VD   g_vds[4];
static int g_ints[4];

#define PAIR_INT(K, FROM, TO)                                                                 \
  if (only < 0 || only == K)                                                                   \
  {                                                                                            \
    std::vector<FROM> src = boundary_ints<FROM> ();                                            \
    for (std::size_t i = 0; i < extra.size (); ++i) src.push_back (static_cast<FROM> (extra[i])); \
    run_pair<FROM, TO> (#FROM " -> " #TO, src, static_cast<TO> (5));                                        \
    std::vector<FROM> none;                                                                    \
    run_pair<FROM, TO> (#FROM " -> " #TO, none, static_cast<TO> (5));                                       \
  }

#ifndef CONV_PART
#  define CONV_PART -1
#endif
#define PART_ENABLED(p) (CONV_PART < 0 || CONV_PART == (p))

static void
run_all (int only, const std::vector<long long>& extra, const std::vector<double>& fextra)
{
  // integral pairs of equal and different width and signedness
#if PART_ENABLED (0)
  PAIR_INT (0, signed char, unsigned char)
  PAIR_INT (1, unsigned char, signed char)
  PAIR_INT (2, short, unsigned short)
  PAIR_INT (3, unsigned short, short)
  PAIR_INT (4, int, unsigned)
  PAIR_INT (5, unsigned, int)
  PAIR_INT (6, long, unsigned long)
  PAIR_INT (7, unsigned long, long)
  PAIR_INT (8, long, long long)
#endif
#if PART_ENABLED (1)
  PAIR_INT (9, long long, long)
  PAIR_INT (10, unsigned long, unsigned long long)
  PAIR_INT (11, int, long)
  PAIR_INT (12, long, int)
  PAIR_INT (13, int, short)
  PAIR_INT (14, short, int)
  PAIR_INT (15, unsigned char, int)
  PAIR_INT (16, int, unsigned char)
  PAIR_INT (17, unsigned, long long)
#endif
#if PART_ENABLED (2)
  PAIR_INT (18, long long, unsigned)
  // bool
  PAIR_INT (19, int, bool)
  PAIR_INT (20, unsigned char, bool)
  PAIR_INT (21, signed char, bool)
  // char kinds
  PAIR_INT (23, char, signed char)
  PAIR_INT (24, char, unsigned char)
  PAIR_INT (25, unsigned char, char)
  PAIR_INT (26, signed char, char)
#endif
#if PART_ENABLED (3)
  PAIR_INT (27, char16_t, unsigned short)
  PAIR_INT (28, unsigned short, char16_t)
  PAIR_INT (29, char32_t, unsigned)
  PAIR_INT (30, unsigned, char32_t)
  PAIR_INT (31, wchar_t, int)
  PAIR_INT (32, int, wchar_t)
  PAIR_INT (33, char32_t, int)
  PAIR_INT (34, wchar_t, unsigned)
#endif
#if defined (__cpp_char8_t)
#if PART_ENABLED (3)
  PAIR_INT (35, char8_t, unsigned char)
#endif
#if PART_ENABLED (4)
  PAIR_INT (36, unsigned char, char8_t)
  PAIR_INT (37, char8_t, char)
#endif
#endif
  // enums -> integers (implicit for unscoped enums), same and different width
#if PART_ENABLED (4)
  if (only < 0 || only == 40) { std::vector<UE8> s; s.push_back (ue_a); s.push_back (ue_b); s.push_back (ue_c); run_pair<UE8, unsigned char> ("enum:uchar -> unsigned char", s, static_cast<unsigned char> (5)); }
  if (only < 0 || only == 41) { std::vector<UE8> s; s.push_back (ue_a); s.push_back (ue_b); s.push_back (ue_c); run_pair<UE8, signed char> ("enum:uchar -> signed char", s, static_cast<signed char> (5)); }
  if (only < 0 || only == 42) { std::vector<UE8> s; s.push_back (ue_a); s.push_back (ue_b); s.push_back (ue_c); run_pair<UE8, int> ("enum:uchar -> int", s, 5); }
  if (only < 0 || only == 43) { std::vector<UE32> s; s.push_back (ue32_a); s.push_back (ue32_b); s.push_back (ue32_c); run_pair<UE32, int> ("enum:int -> int", s, 5); }
  if (only < 0 || only == 44) { std::vector<UE32> s; s.push_back (ue32_a); s.push_back (ue32_b); s.push_back (ue32_c); run_pair<UE32, unsigned> ("enum:int -> unsigned", s, 5u); }
#endif
#if PART_ENABLED (5)
  if (only < 0 || only == 45) { std::vector<UE32> s; s.push_back (ue32_a); s.push_back (ue32_c); run_pair<UE32, long long> ("enum:int -> long long", s, 5ll); }
  if (only < 0 || only == 46) { std::vector<UE32> s; s.push_back (ue32_a); s.push_back (ue32_c); run_pair<UE32, UE32> ("enum:int -> same enum", s, ue32_b); }
  if (only < 0 || only == 47) { std::vector<SE> s; s.push_back (SE::a); s.push_back (SE::c); run_pair<SE, SE> ("enum class:short -> same enum", s, SE::b); }
  // floating point (in-range values only, so that the oracle itself has no UB)
  if (only < 0 || only == 50) { std::vector<float> s; s.push_back (0.f); s.push_back (1.5f); s.push_back (-2.25f); s.push_back (1e10f); for (std::size_t i = 0; i < fextra.size (); ++i) s.push_back (static_cast<float> (fextra[i])); run_pair<float, double> ("float -> double", s, 5.0); }
  if (only < 0 || only == 51) { std::vector<double> s; s.push_back (0.); s.push_back (1.5); s.push_back (-2.25); s.push_back (0.1); for (std::size_t i = 0; i < fextra.size (); ++i) s.push_back (fextra[i]); run_pair<double, float> ("double -> float", s, 5.0f); }
  if (only < 0 || only == 52) { std::vector<int> s = boundary_ints<int> (); run_pair<int, double> ("int -> double", s, 5.0); }
  if (only < 0 || only == 53) { std::vector<int> s = boundary_ints<int> (); run_pair<int, float> ("int -> float", s, 5.0f); }
#endif
#if PART_ENABLED (6)
  if (only < 0 || only == 54) { std::vector<double> s; s.push_back (0.); s.push_back (1.9); s.push_back (-2.9); s.push_back (2147483000.5); s.push_back (-2147483000.5); for (std::size_t i = 0; i < fextra.size (); ++i) s.push_back (fextra[i]); run_pair<double, int> ("double -> int", s, 5); }
  if (only < 0 || only == 55) { std::vector<float> s; s.push_back (0.f); s.push_back (1.9f); s.push_back (-2.9f); s.push_back (65000.7f); run_pair<float, long long> ("float -> long long", s, 5ll); }
  if (only < 0 || only == 56) { std::vector<unsigned> s = boundary_ints<unsigned> (); run_pair<unsigned, float> ("unsigned -> float", s, 5.0f); }
  if (only < 0 || only == 57) { std::vector<long long> s = boundary_ints<long long> (); run_pair<long long, double> ("long long -> double", s, 5.0); }
  // pointers
  if (only < 0 || only == 60) { std::vector<int *> s; s.push_back (&g_ints[0]); s.push_back (0); s.push_back (&g_ints[3]); run_pair<int *, const int *> ("int* -> const int*", s, static_cast<const int *> (&g_ints[1])); }
  if (only < 0 || only == 61) { std::vector<int *> s; s.push_back (&g_ints[0]); s.push_back (0); s.push_back (&g_ints[3]); run_pair<int *, void *> ("int* -> void*", s, static_cast<void *> (&g_ints[1])); }
  if (only < 0 || only == 62) { std::vector<int *> s; s.push_back (&g_ints[0]); s.push_back (0); s.push_back (&g_ints[3]); run_pair<int *, const void *> ("int* -> const void*", s, static_cast<const void *> (&g_ints[1])); }
#endif
#if PART_ENABLED (7)
  if (only < 0 || only == 63) { std::vector<Der *> s; s.push_back (&g_ders[0]); s.push_back (0); s.push_back (&g_ders[2]); run_pair<Der *, B1 *> ("Derived* -> FirstBase*", s, static_cast<B1 *> (&g_ders[1])); }
  if (only < 0 || only == 64) { std::vector<Der *> s; s.push_back (&g_ders[0]); s.push_back (0); s.push_back (&g_ders[2]); run_pair<Der *, B2 *> ("Derived* -> SecondBase*", s, static_cast<B2 *> (&g_ders[1])); }
  if (only < 0 || only == 65) { std::vector<Der *> s; s.push_back (&g_ders[0]); s.push_back (0); s.push_back (&g_ders[2]); run_pair<Der *, const B2 *> ("Derived* -> const SecondBase*", s, static_cast<const B2 *> (&g_ders[1])); }
  if (only < 0 || only == 66) { std::vector<Der *> s; s.push_back (&g_ders[0]); s.push_back (0); run_pair<Der *, void *> ("Derived* -> void*", s, static_cast<void *> (&g_ders[1])); }
  if (only < 0 || only == 68) { std::vector<PD *> s; s.push_back (&g_pds[0]); s.push_back (0); s.push_back (&g_pds[2]); run_pair<PD *, P2 *> ("Derived* -> plain SecondBase* (standard-layout base, offset 4)", s, static_cast<P2 *> (&g_pds[1])); }
  if (only < 0 || only == 69) { std::vector<PD *> s; s.push_back (&g_pds[0]); s.push_back (0); s.push_back (&g_pds[2]); run_pair<PD *, const P2 *> ("Derived* -> const plain SecondBase*", s, static_cast<const P2 *> (&g_pds[1])); }
  if (only < 0 || only == 70) { std::vector<Poly *> s; s.push_back (&g_polys[0]); s.push_back (0); s.push_back (&g_polys[2]); run_pair<Poly *, NB *> ("Polymorphic* -> plain Base* (behind the vptr)", s, static_cast<NB *> (&g_polys[1])); }
  if (only < 0 || only == 71) { std::vector<VD *> s; s.push_back (&g_vds[0]); s.push_back (0); s.push_back (&g_vds[2]); run_pair<VD *, VB *> ("Derived* -> virtual Base*", s, static_cast<VB *> (&g_vds[1])); }
  if (only < 0 || only == 67) { std::vector<const int *> s; s.push_back (&g_ints[0]); s.push_back (0); run_pair<const int *, const int *> ("const int* -> const int*", s, static_cast<const int *> (&g_ints[1])); }
#endif
}

int
main (int argc, char **argv)
{
  std::string out;
  unsigned long long seed = 1;
  unsigned cases = 200;
  int only = -1;
#ifdef CONV_ONLY_PAIR
  only = CONV_ONLY_PAIR;
#endif
  for (int i = 1; i < argc; ++i)
  {
    const std::string a = argv[i];
    const char *next = (i + 1 < argc) ? argv[i + 1] : "";
    if (a == "--out") { out = next; ++i; }
    else if (a == "--seed") { seed = std::strtoull (next, 0, 10); ++i; }
    else if (a == "--cases") { cases = static_cast<unsigned> (std::atoi (next)); ++i; }
    else if (a == "--only") { only = std::atoi (next); ++i; }
  }
  std::vector<long long> none;
  std::vector<double> fnone;
  run_all (only, none, fnone);
  const unsigned long long boundary_evals = g_evals;
#ifndef CONV_NO_RAPIDCHECK
  if (! g_failed)
  {
    char params[128];
    std::snprintf (params, sizeof params, "seed=%llu max_success=%u max_size=30", seed == 0 ? 1 : seed, cases);
    setenv ("RC_PARAMS", params, 1);
    rc::check ("C13 conversions with generated source values", [&] () {
      const std::vector<long long> extra = *rc::gen::container<std::vector<long long> > (rc::gen::arbitrary<long long> ());
      std::vector<double> fextra;
      const std::vector<int> fi = *rc::gen::container<std::vector<int> > (rc::gen::resize (rc::kNominalSize, rc::gen::inRange (-2000000, 2000000)));
      for (std::size_t i = 0; i < fi.size (); ++i) fextra.push_back (fi[i] / 7.0);
      run_all (only, extra, fextra);
      if (g_failed) RC_FAIL (g_fail_text);
    });
  }
#endif
  if (! out.empty ())
  {
    std::ofstream f (out.c_str ());
    f << "{\"std\": " << __cplusplus << ", \"evaluations\": " << g_evals << ", \"boundary_evaluations\": " << boundary_evals << ", \"nontrivial\": " << g_nontrivial << ", \"samples\": [";
    for (std::size_t i = 0; i < g_samples.size (); ++i) f << (i ? ", " : "") << "\"" << g_samples[i] << "\"";
    f << "]";
    if (g_failed) f << ", \"failure\": \"" << g_fail_text << "\"";
    f << ", \"end\": true}\n";
  }
  if (g_failed) { std::printf ("FAILURE %s\n", g_fail_text.c_str ()); return 1; }
  return 0;
}
