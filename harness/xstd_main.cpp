// xstd_main.cpp -- C17: the interpreter as a C++11-clean trace binary.  Built under every
// language standard / compiler / GCH_DISABLE_CONCEPTS combination; each build executes the
// same corpus of programs and prints one digest line per (program, configuration).
#include "interp.hpp"

#include <cstdio>
#include <fstream>
#include <sstream>
#include <string>

typedef vh::TrackAlloc<vh::TRIV, vh::ACfg<true, false, true, false> > AL_TRIV;
typedef vh::TrackAlloc<vh::NT, vh::ACfg<false, false, false, true> >  AL_AE;
typedef vh::TrackAlloc<vh::MO, vh::ACfg<false, true, false, false> >  AL_MO;
VH_DEFINE_CONFIG (x1, NT, 3, 8, std::allocator<vh::NT>, "std", "")
VH_DEFINE_CONFIG (x2, TRIV, 0, 3, AL_TRIV, "TA(1,0,1)", "")
VH_DEFINE_CONFIG (x3, NT, 2, 5, AL_AE, "TA(0,0,0,ae=1)", "")
VH_DEFINE_CONFIG (x4, MO, 4, 0, AL_MO, "TA(0,1,0)", "")
#ifndef XSTD_NO_MOT_STD
// move-only element with a throwing move constructor on std::allocator
VH_DEFINE_CONFIG (x5, MOT, 3, 3, std::allocator<vh::MOT>, "std", "")
#endif

int
main (int argc, char **argv)
{
  if (argc < 2) { std::fprintf (stderr, "usage: xstd <corpus>\n"); return 3; }
  std::ifstream f (argv[1]);
  std::string line, cur;
  unsigned idx = 0;
  std::vector<std::string> texts;
  while (std::getline (f, line))
  {
    if (line.compare (0, 12, "verif-replay") == 0 && ! cur.empty ()) { texts.push_back (cur); cur.clear (); }
    cur += line; cur += "\n";
  }
  if (! cur.empty ()) texts.push_back (cur);
  std::printf ("STD %ld\n", static_cast<long> (__cplusplus));
  for (std::size_t i = 0; i < texts.size (); ++i, ++idx)
  {
    vh::Program p; std::string err;
    if (! vh::from_text (texts[i], p, err)) continue;
    for (std::size_t c = 0; c < vh::configs ().size (); ++c)
    {
      const vh::ConfigEntry& ce = vh::configs ()[c];
      vh::RunOptions o; o.probes = vh::PR_C01 | vh::PR_C02 | vh::PR_C03 | vh::PR_C04 | vh::PR_TRACE;
      o.verbose = argc > 2;
      if (argc > 3 && std::string (argv[3]) != ce.name) continue;
      vh::RunResult r;
      p.cfg = ce.name;
      ce.run (p, o, r);
      std::printf ("D %u %s %016llx %d %x %s\n", idx, ce.name, r.digest, int (r.failed), r.flags, r.failed ? r.clause.c_str () : "-");
    }
  }
  return 0;
}
