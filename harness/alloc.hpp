// alloc.hpp -- instrumented allocator (DESIGN.md §2.3).  C++11-clean.
#ifndef VH_ALLOC_HPP
#define VH_ALLOC_HPP

#include "core.hpp"

#include <limits>
#include <memory>
#include <new>
#include <type_traits>
#include <utility>

namespace vh
{

  // Allocator configuration: a *type* (a non-type template parameter would defeat
  // allocator_traits' default rebind).
  template <bool Pocca, bool Pocma, bool Pocs, bool AlwaysEqual,
            typename SizeT = std::size_t, unsigned long MaxSize = 0, bool Construct = false>
  struct ACfg
  {
    static const bool construct = Construct;   // provide construct () / destroy () members
    static const bool pocca = Pocca;
    static const bool pocma = Pocma;
    static const bool pocs  = Pocs;
    static const bool ae    = AlwaysEqual;
    typedef SizeT size_type;
    static const unsigned long max_size = MaxSize;   // 0: derive from size_type
  };

  // construct () / destroy () members (optional): their presence forces small_vector onto
  // allocator_traits::construct and disables the byte-copy shortcuts; calls are counted.
  struct ConstructCounters { unsigned long long constructs, destroys; ConstructCounters () : constructs (0), destroys (0) { } };
  inline ConstructCounters& construct_counters () { static ConstructCounters c; return c; }

  template <typename T, bool Enabled>
  struct ConstructMixin { };

  template <typename T>
  struct ConstructMixin<T, true>
  {
    template <typename U, typename ...Args>
    void construct (U *p, Args&&... args)
    {
      ::new (const_cast<void *> (static_cast<const volatile void *> (p))) U (std::forward<Args> (args)...);
      ++construct_counters ().constructs;
    }
    template <typename U>
    void destroy (U *p) noexcept
    {
      p->~U ();
      ++construct_counters ().destroys;
    }
  };

  template <typename T, typename C>
  class TrackAlloc : public ConstructMixin<T, C::construct>
  {
  public:
    typedef T                         value_type;
    typedef typename C::size_type     size_type;
    typedef std::ptrdiff_t            difference_type;
    typedef T *                       pointer;
    typedef const T *                 const_pointer;
    typedef std::integral_constant<bool, C::pocca> propagate_on_container_copy_assignment;
    typedef std::integral_constant<bool, C::pocma> propagate_on_container_move_assignment;
    typedef std::integral_constant<bool, C::pocs>  propagate_on_container_swap;
    typedef std::integral_constant<bool, C::ae>    is_always_equal;
    typedef C                         config;

    template <typename U> struct rebind { typedef TrackAlloc<U, C> other; };

    int id;

    TrackAlloc () noexcept : id (1) { }
    explicit TrackAlloc (int i) noexcept : id (i) { }
    TrackAlloc (const TrackAlloc& o) noexcept : id (o.id) { }
    template <typename U>
    TrackAlloc (const TrackAlloc<U, C>& o) noexcept : id (o.id) { }
    TrackAlloc& operator= (const TrackAlloc& o) noexcept { id = o.id; return *this; }

    T *
    allocate (size_type n)
    {
      fault_point (F_ALLOC);
      const std::size_t cnt = static_cast<std::size_t> (n);
      if (cnt > max_size_impl ())
        fail ("limits.allocate_over_max", "allocate (%lu) exceeds the allocator's max_size () = %lu",
              static_cast<unsigned long> (cnt), static_cast<unsigned long> (max_size_impl ()));
      void *p = ::operator new (cnt == 0 ? 1 : cnt * sizeof (T));
      std::memset (p, 0xCD, cnt * sizeof (T));
      ledger ().on_allocate (p, cnt, sizeof (T), id, C::ae);
      return static_cast<T *> (p);
    }

    void
    deallocate (T *p, size_type n) noexcept
    {
      if (ledger ().on_deallocate (p, static_cast<std::size_t> (n), id))
        ::operator delete (p);
    }

    size_type
    max_size () const noexcept
    {
      return static_cast<size_type> (max_size_impl ());
    }

    TrackAlloc
    select_on_container_copy_construction () const
    {
      return TrackAlloc (id | SOCCC_BIT);
    }

    static std::size_t
    max_size_impl () noexcept
    {
      return C::max_size != 0
             ? static_cast<std::size_t> (C::max_size)
             : static_cast<std::size_t> ((std::numeric_limits<size_type>::max) ()) / sizeof (T);
    }
  };

  template <typename T, typename U, typename C>
  inline bool
  operator== (const TrackAlloc<T, C>& a, const TrackAlloc<U, C>& b) noexcept
  {
    return C::ae || ((a.id & ~SOCCC_BIT) == (b.id & ~SOCCC_BIT));
  }

  template <typename T, typename U, typename C>
  inline bool
  operator!= (const TrackAlloc<T, C>& a, const TrackAlloc<U, C>& b) noexcept
  {
    return ! (a == b);
  }

  // Minimal untracked allocator without construct/destroy members (used for harness-owned
  // foreign containers; std::allocator's catch-all construct () before C++20 makes
  // small_vector believe a move-only type is copy-insertable).
  template <typename T>
  struct PlainAlloc
  {
    typedef T value_type;
    PlainAlloc () noexcept { }
    template <typename U> PlainAlloc (const PlainAlloc<U>&) noexcept { }
    T *allocate (std::size_t n) { return static_cast<T *> (::operator new (n == 0 ? 1 : n * sizeof (T))); }
    void deallocate (T *p, std::size_t) noexcept { ::operator delete (p); }
  };
  template <typename T, typename U> inline bool operator== (const PlainAlloc<T>&, const PlainAlloc<U>&) noexcept { return true; }
  template <typename T, typename U> inline bool operator!= (const PlainAlloc<T>&, const PlainAlloc<U>&) noexcept { return false; }

  // ---- uniform view of an allocator type for the interpreter
  template <typename A>
  struct AllocInfo
  {
    static const bool tracked = false;
    static const bool pocca = false, pocma = true, pocs = false;   // std::allocator: POCMA is true_type
    static const bool ae = true;
    static const bool is_std = true;
    static const bool has_construct = false;
    static A    make (int) { return A (); }
    static int  id (const A&) { return 0; }
    static const char *name () { return "std"; }
  };

  template <typename T, typename C>
  struct AllocInfo<TrackAlloc<T, C> >
  {
    static const bool tracked = true;
    static const bool pocca = C::pocca, pocma = C::pocma, pocs = C::pocs;
    static const bool ae = C::ae;
    static const bool is_std = false;
    static const bool has_construct = C::construct;
    static TrackAlloc<T, C> make (int i) { return TrackAlloc<T, C> (i); }
    static int id (const TrackAlloc<T, C>& a) { return a.id; }
    static const char *name () { return "track"; }
  };

} // namespace vh

#endif
