// fuzz_hist.cpp -- libFuzzer target over the program interpreter (thorough tier supplement).
// Input: byte 0 selects the configuration, then 7 bytes per operation.  The property whose
// probes are evaluated comes from VERIF_FUZZ_PROP; an oracle failure writes a replay file
// into VERIF_FUZZ_OUT and traps.
#include "checker.hpp"

#include <cstdint>
#include <cstdio>
#include <cstdlib>
#include <fstream>
#include <unistd.h>

static Checker            g_ck;
static const PropSpec    *g_ps = 0;
static PropSpec           g_forced;
static std::string        g_out;
static unsigned long long g_execs = 0;

static void
flush_counters ()
{
  if (g_out.empty ()) return;
  char path[512];
  std::snprintf (path, sizeof path, "%s/fuzz-stats-%d.json", g_out.c_str (), static_cast<int> (getpid ()));
  std::ofstream f (path);
  f << "{\"execs\": " << g_execs << ", \"executions\": " << g_ck.st.executions << ", \"nontrivial\": " << g_ck.st.nontrivial.size ()
    << ", \"steps\": " << g_ck.st.steps << ", \"faults_injected\": " << g_ck.st.faults_injected << "}\n";
}

static void
init ()
{
  const char *pn = std::getenv ("VERIF_FUZZ_PROP");
  const char *out = std::getenv ("VERIF_FUZZ_OUT");
  g_out = out ? out : "";
  g_ps = find_prop (pn ? pn : "C01");
  if (g_ps == 0) { std::fprintf (stderr, "unknown VERIF_FUZZ_PROP\n"); std::abort (); }
  g_forced = *g_ps;
  const char *ff = std::getenv ("VERIF_FUZZ_FAULT");
  if (ff && ff[0] == '1') { g_forced.fault = true; g_forced.fault_mask = MASK_ALL; }
  g_ps = &g_forced;
  g_ck.prop = g_ps;
  g_ck.base.probes = g_ps->probes;
  g_ck.base.max_size = 96;
  std::atexit (flush_counters);
}

extern "C" int
LLVMFuzzerTestOneInput (const uint8_t *data, size_t size)
{
  if (g_ps == 0) init ();
  if (size < 8 || configs ().empty ()) return 0;
  const ConfigEntry& cfg = configs ()[data[0] % configs ().size ()];
  std::vector<Op> ops;
  for (size_t i = 1; i + 7 <= size && ops.size () < 120; i += 7)
  {
    Op o;
    o.kind = static_cast<unsigned char> (data[i] % OP_COUNT);
    o.t = data[i + 1] & 3; o.s = data[i + 2] & 3; o.a = data[i + 3]; o.b = data[i + 4]; o.c = data[i + 5]; o.d = data[i + 6];
    ops.push_back (o);
  }
  g_ck.cfg = &cfg;
  g_ck.twin = 0;
  if (std::string (g_ps->name) == "C13")
  {
    if (cfg.twin[0] == 0) return 0;
    g_ck.twin = find_config (cfg.twin);
  }
  ++g_execs;
  bool ok;
  if (g_ps->fault)
  {
    if (ops.size () > 26) ops.resize (26);
    const char g = op_group (ops.back ().kind);
    if (g == 'M' || g == 'O') return 0;
    ok = g_ck.check_faults (ops);
  }
  else
    ok = g_ck.check_history (ops);
  if ((g_execs & 0x3fff) == 0) flush_counters ();
  if (! ok)
  {
    if (! g_out.empty ())
    {
      char path[512];
      std::snprintf (path, sizeof path, "%s/fuzz-failure-%d-%llu.replay", g_out.c_str (), static_cast<int> (getpid ()), g_execs);
      write_file (path, to_text (g_ck.failing));
      std::fprintf (stderr, "FUZZ-FAILURE %s clause=%s detail=%s\n", path, g_ck.failing_res.clause.c_str (), g_ck.failing_res.detail.c_str ());
    }
    flush_counters ();
    __builtin_trap ();
  }
  return 0;
}
