# gdb_check.py -- runs inside gdb (batch).  For every stop in verif_stop () compares what
# the shipped pretty-printer and the natvis member paths report with the debuggee's own
# account of the state.  Environment: VERIF_GDB_PRINTER_DIR, VERIF_GDB_OUT, VERIF_GDB_NATVIS.
import json
import os
import re
import sys
import xml.etree.ElementTree as ET

import gdb

sys.path.insert(0, os.environ["VERIF_GDB_PRINTER_DIR"])
res = {"stops": 0, "checked": 0, "failures": [], "nontrivial": [], "classes": {}, "samples": [], "natvis_unresolved": {}, "natvis_resolved": {}, "printer_loaded": False}
try:
    from gch.gdb.prettyprinters import small_vector  # noqa: F401  (registers the printers)
    res["printer_loaded"] = True
except Exception as e:  # the printer itself is broken
    res["failures"].append({"case": -1, "what": "the shipped printer module failed to load: %r" % (e,)})

# natvis expressions
natvis_exprs = {"container": [], "iterator": []}
try:
    root = ET.parse(os.environ["VERIF_GDB_NATVIS"]).getroot()
    ns = {"n": "http://schemas.microsoft.com/vstudio/debugger/natvis/2010"}
    for ty in root.findall("n:Type", ns):
        kind = "iterator" if "iterator" in ty.get("Name") else "container"
        texts = []
        for el in ty.iter():
            if el.get("Condition"):
                texts.append(el.get("Condition"))
            if el.text and el.text.strip():
                texts.append(el.text.strip())
        ids = set()
        for t in texts:
            for m in re.finditer(r"[A-Za-z_][A-Za-z_0-9]*(?:\.[A-Za-z_][A-Za-z_0-9]*)*", t):
                w = m.group(0)
                if w not in ("size", "inlined", "allocated", "simple"):
                    ids.add(w)
        natvis_exprs[kind] = sorted(ids)
except Exception as e:
    res["failures"].append({"case": -1, "what": "natvis file could not be parsed: %r" % (e,)})
res["natvis_expressions"] = natvis_exprs


def key_of(val, type_id, ints_addr):
    t = val.type.strip_typedefs()
    if type_id == 0:
        return int(val)
    if type_id == 1:
        return int(float(val) * 4.0)
    if type_id == 2:
        p = val["_M_dataplus"]["_M_p"]
        n = int(val["_M_string_length"])
        s = p.string(length=n) if n else ""
        return n * 256 + (ord(s[0]) if s else 0)
    if type_id == 3:
        return int(val["x"]) * 1000 + int(float(val["y"]) * 4.0)
    if type_id == 4:
        a = int(val)
        return -1 if a == 0 else (a - ints_addr) // 4
    if type_id == 5:
        # nested gch::small_vector<int, 2>: read it through the (already validated) container printer
        inner = gdb.default_visualizer(val)
        if inner is None:
            raise RuntimeError("no printer for the nested small_vector element")
        kids = list(inner.children())
        return len(kids) * 100000 + (int(kids[0][1]) if kids else 0)
    raise RuntimeError("unknown type id")


def fail(case, what):
    if len(res["failures"]) < 20:
        res["failures"].append({"case": case, "what": what})


def check_stop():
    res["stops"] += 1
    case = int(gdb.parse_and_eval("g_case"))
    size = int(gdb.parse_and_eval("g_size"))
    cap = int(gdb.parse_and_eval("g_cap"))
    n = int(gdb.parse_and_eval("g_n"))
    type_id = int(gdb.parse_and_eval("g_type"))
    heap = int(gdb.parse_and_eval("g_heap"))
    it_index = int(gdb.parse_and_eval("g_it_index"))
    data = int(gdb.parse_and_eval("(unsigned long) g_data"))
    ints_addr = int(gdb.parse_and_eval("(unsigned long) &g_ints[0]"))
    keys = [int(gdb.parse_and_eval("g_keys[%d]" % i)) for i in range(min(size, 64))]
    gdb.execute("up", to_string=True)
    v = gdb.parse_and_eval("v")
    label = "case %d (type %d, N=%d, size=%d, capacity=%d, %s)" % (case, type_id, n, size, cap, "heap" if heap else "inline")
    cls = ("heap" if heap else ("n0_empty" if n == 0 and size == 0 else "inline")) + ("_class" if type_id in (2, 3, 5) else "")
    res["classes"][cls] = res["classes"].get(cls, 0) + 1
    if heap or (n == 0 and size == 0) or type_id in (2, 3, 5):
        res["nontrivial"].append("%d/%d/%d/%d/%d/%d" % (type_id, n, size, cap, heap, hash(tuple(keys)) & 0xffffff))
    # 1. the printer as the user sees it
    text = gdb.execute("print v", to_string=True)
    m = re.search(r"small_vector of length (\d+), capacity (\d+)", text)
    if not m:
        fail(case, "%s: `print v` does not show the pretty-printer's summary: %s" % (label, text.strip()[:200]))
    elif int(m.group(1)) != size or int(m.group(2)) != cap:
        fail(case, "%s: printer reports length %s, capacity %s" % (label, m.group(1), m.group(2)))
    # 2. the printer's children against the program's own element keys
    pp = gdb.default_visualizer(v)
    if pp is None:
        fail(case, "%s: no pretty-printer is registered for the container type %s" % (label, v.type))
    else:
        try:
            kids = list(pp.children())
            if len(kids) != size:
                fail(case, "%s: printer lists %d children" % (label, len(kids)))
            else:
                for i, (name, val) in enumerate(kids[:64]):
                    if name != "[%d]" % i:
                        fail(case, "%s: child %d is named %s" % (label, i, name))
                        break
                    if key_of(val, type_id, ints_addr) != keys[i]:
                        fail(case, "%s: child %d does not hold the element the program stored there" % (label, i))
                        break
                # 3. iterators print as the element they refer to
                if it_index >= 0 and len(kids) == size:
                    for itname in ("it", "cit"):
                        ipp = gdb.default_visualizer(gdb.parse_and_eval(itname))
                        if ipp is None:
                            fail(case, "%s: no pretty-printer for the iterator type" % label)
                            break
                        want = str(kids[it_index][1])
                        got = ipp.to_string()
                        if str(got) != want:
                            fail(case, "%s: iterator at index %d prints as %s, the element is %s" % (label, it_index, str(got)[:80], want[:80]))
                ipp0 = gdb.default_visualizer(gdb.parse_and_eval("it0"))
                if ipp0 is None or "non-dereferenceable" not in str(ipp0.to_string()):
                    fail(case, "%s: a value-initialised iterator is not printed as non-dereferenceable" % label)
        except Exception as e:
            fail(case, "%s: the printer raised %r" % (label, e))
    # 4. natvis member paths resolve to the same fields
    want = {"m_data.m_size": size, "m_data.m_capacity": cap, "m_data.m_data_ptr": data, "inline_capacity_v": n}
    for expr in natvis_exprs["container"]:
        try:
            val = gdb.parse_and_eval("v." + expr)
        except gdb.error as e:
            res["natvis_unresolved"][expr] = res["natvis_unresolved"].get(expr, 0) + 1
            must = expr in ("m_data.m_size", "m_data.m_capacity", "m_data.m_data_ptr")
            if expr == "m_alloc" and "StatefulAlloc" in str(v.type.strip_typedefs()):
                must = True      # a stateful allocator is stored as a member
            if expr == "inline_capacity_v" and os.environ.get("VERIF_GDB_STATIC_MEMBERS") == "1":
                must = True      # clang -fstandalone-debug keeps static constexpr members in the debug info
            if must:
                fail(case, "%s: natvis path %s does not resolve: %s" % (label, expr, str(e)[:120]))
            continue
        res["natvis_resolved"][expr] = res["natvis_resolved"].get(expr, 0) + 1
        if expr in want:
            got = int(val.cast(gdb.lookup_type("unsigned long"))) if expr.endswith("m_data_ptr") else int(val)
            if got != want[expr]:
                fail(case, "%s: natvis path %s yields %d, the program says %d" % (label, expr, got, want[expr]))
    if it_index >= 0:
        for expr in natvis_exprs["iterator"]:
            try:
                val = gdb.parse_and_eval("it." + expr)
                if expr == "m_ptr" and int(val.cast(gdb.lookup_type("unsigned long"))) != data + it_index * v.type.template_argument(0).sizeof:
                    fail(case, "%s: natvis iterator path m_ptr does not point at element %d" % (label, it_index))
            except gdb.error as e:
                fail(case, "%s: natvis iterator path %s does not resolve: %s" % (label, expr, str(e)[:120]))
    res["checked"] += 1
    if len(res["samples"]) < 4 and (heap or type_id in (2, 3)) and size <= 6:
        res["samples"].append("%s -> %s" % (label, text.strip().replace("\n", " ")[:160]))


gdb.execute("set pagination off")
gdb.execute("set print elements 200")
gdb.execute("break verif_stop")
gdb.execute("run", to_string=True)
while True:
    try:
        frame = gdb.selected_frame()
    except gdb.error:
        break
    if frame.name() != "verif_stop":
        break
    try:
        check_stop()
    except Exception as e:
        fail(-1, "checker error: %r" % (e,))
    try:
        gdb.execute("continue", to_string=True)
    except gdb.error:
        break
res["nontrivial"] = sorted(set(res["nontrivial"]))
with open(os.environ["VERIF_GDB_OUT"], "w") as f:
    json.dump(res, f)
